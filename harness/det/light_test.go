package det

import (
	"fmt"
	"os"
	"testing"

	"pgregory.net/rapid"

	"github.com/glebziz/fs_db/internal/verifh/ev"
)

// Light-backend parts of C06/C07/C08: the same programs and oracle, but on the stack wired over an
// in-memory key-value provider, where an episode costs a fraction of a millisecond - so ALL schedules
// with up to VERIF_LIGHT_BOUND (2 quick, 3 thorough for the smallest programs) forced preemptions are
// explored, for every rotation of the client list.

func enumLight(t *testing.T, prop, part string, progs []Case) {
	t.Cleanup(func() { ev.Flush(prop, part) })
	if ev.Replaying() {
		ev.Check(t, prop, part, func(*rapid.T) Case { return Case{} }, execJudge)
		return
	}
	shard, n := shardInfo()
	bound := 2
	if v := envInt("VERIF_LIGHT_BOUND"); v > 0 {
		bound = v
	}
	maxSteps := envInt("VERIF_LIGHT_MAXSTEPS") // programs with a longer concurrent phase get bound 1 unless marked Deep
	total, progsDone := 0, 0
	for _, prog := range progs {
		if os.Getenv("VERIF_TIER") != "thorough" && !prog.Deep && prog.DirMax == 0 { // (wide programs: thorough tier only, about 30 000 episodes of 300 keys)
			continue // quick tier: the other programs are enumerated at bound 1 on the real stack (part enum); those with a small directory limit exist on the light backend only and run here, at bound 1 unless Deep
		}
		for rot := 0; rot < len(prog.Clients); rot++ {
			p := prog
			p.Light = true
			p.Clients = append(append([][]COp(nil), prog.Clients[rot:]...), prog.Clients[:rot]...)
			// a program whose concurrent phase is long gets the full bound only in the thorough tier
			var pre []int
			CountCands = &pre
			probe := p
			probe.Sched = Schedule{}
			Execute(probe, false)
			CountCands = nil
			b := bound
			if len(pre) > maxSteps && b > 1 && !p.Deep {
				b = 1
			}
			if p.Wide {
				b = 1
			}
			// with a bound >= 2 the forced switches go to working goroutines only (clients, busy workers);
			// idle workers and timers are covered by the single-preemption enumeration on the real stack
			runs, ok := EnumBounded(b, shard, n, func(pre [][2]int) ([]int, bool) {
				c := p
				c.Sched = Schedule{Preempt: pre}
				var cands []int
				CountCands = &cands
				CountWorkingOnly = b >= 2
				r := execJudge(c)
				CountCands = nil
				CountWorkingOnly = false
				r.Class(fmt.Sprintf("bound=%d", b))
				if len(pre) == 0 {
					r.Class(fmt.Sprintf("program-steps=%d", len(cands)))
				}
				return cands, ev.Direct(t, prop, part, c, r)
			})
			total += runs
			if !ok {
				return
			}
		}
		progsDone++
	}
	ev.Note(prop, fmt.Sprintf("part %s: light backend, all schedules with <= %d forced preemptions of %d catalogue programs x client rotations (%d runs in this shard of %d)", part, bound, progsDone, total, n))
}

func TestC06LightEnum(t *testing.T) { enumLight(t, "C06", "lenum", c06Catalogue()) }
func TestC07LightEnum(t *testing.T) { enumLight(t, "C07", "lenum", c07Catalogue()) }
func TestC08LightEnum(t *testing.T) { enumLight(t, "C08", "lenum", c08Catalogue()) }

func lightOf(gen func(*rapid.T) Case) func(*rapid.T) Case {
	return func(t *rapid.T) Case {
		c := gen(t)
		c.Light = true
		// in a quarter of the cases directories hold 2-4 entries only, so that directories fill up, are retired
		// and replaced (and re-activated by the cleaner) while the clients run
		if rapid.IntRange(0, 3).Draw(t, "smallDirs") == 0 {
			c.DirMax = rapid.IntRange(2, 4).Draw(t, "dirMax")
		}
		return c
	}
}

func TestC06LightRand(t *testing.T) { ev.Check(t, "C06", "lrand", lightOf(genC06), execJudge) }
func TestC07LightRand(t *testing.T) { ev.Check(t, "C07", "lrand", lightOf(genC07), execJudge) }
func TestC08LightRand(t *testing.T) { ev.Check(t, "C08", "lrand", lightOf(genC08), execJudge) }
