package det

import (
	"bytes"
	"context"
	"errors"
	"fmt"
	"io"
	"math/rand/v2"
	"os"
	"path/filepath"
	"sort"
	"strings"
	"sync/atomic"
	"time"

	"github.com/glebziz/fs_db"
	"github.com/glebziz/fs_db/internal/db/badger"
	fsmodel "github.com/glebziz/fs_db/internal/model"
	"github.com/glebziz/fs_db/internal/model/transactor"
	contentRepo "github.com/glebziz/fs_db/internal/repository/content"
	contentFileRepo "github.com/glebziz/fs_db/internal/repository/content_file"
	dirRepo "github.com/glebziz/fs_db/internal/repository/dir"
	fileRepo "github.com/glebziz/fs_db/internal/repository/file"
	transactionRepo "github.com/glebziz/fs_db/internal/repository/transaction"
	"github.com/glebziz/fs_db/internal/usecase/cleaner"
	"github.com/glebziz/fs_db/internal/usecase/core"
	"github.com/glebziz/fs_db/internal/usecase/dir"
	"github.com/glebziz/fs_db/internal/usecase/store"
	"github.com/glebziz/fs_db/internal/usecase/transaction"
	"github.com/glebziz/fs_db/internal/utils/generator"
	"github.com/glebziz/fs_db/internal/utils/wpool"
	"github.com/glebziz/fs_db/internal/verifh/ev"
	"github.com/glebziz/fs_db/internal/verifh/seq"
	"github.com/glebziz/fs_db/internal/verifhook"
)

// backend is what an E4 episode needs from a database under test.
type backend interface {
	DB() fs_db.DB
	GC(ctx context.Context) error
	Close()   // orderly close inside the episode
	Abandon() // release resources after a deadlocked / panicked episode (outside the scheduler)
}

// ---- heavy backend: the assembled inline database on a real Badger -----------------------------

type heavy struct{ w *seq.World }

func newHeavy(keys []string) (backend, error) {
	w, err := seq.NewWorldNoHook(seq.Case{Prof: "det", Keys: keys, Roots: 1, MaxDir: 100}, &ev.Result{})
	if err != nil {
		return nil, err
	}
	return &heavy{w}, nil
}

func (h *heavy) DB() fs_db.DB                 { return h.w.DB }
func (h *heavy) GC(ctx context.Context) error { return h.w.Cont.Cleaner().DeleteOld(ctx) }
func (h *heavy) Close()                       { h.w.Close() }
func (h *heavy) Abandon() {
	func() {
		defer func() { recover() }()
		h.w.Cont.Badger().Close()
	}()
	os.RemoveAll(h.w.Dir)
}

// ---- light backend: the same use cases, repositories and worker pool wired exactly as
// pkg/inline/db.New wires them, but over an in-memory key-value provider instead of Badger (content
// files are real files). An episode costs a fraction of a millisecond, which is what makes
// preemption bounds of 2-3 affordable. The provider emits the same hook points as the Badger manager,
// and its transactions are atomic batches like Badger's.

type memKV struct {
	m map[string][]byte
}

type memTxn struct {
	kv     *memKV
	writes map[string][]byte // nil value = delete
}

type ctxMemTxn struct{}

func (k *memKV) GC() {}

func (k *memKV) DB(ctx context.Context) badger.QueryManager {
	if t, ok := ctx.Value(ctxMemTxn{}).(*memTxn); ok && t != nil {
		return t
	}
	return k
}

func (k *memKV) RunTransaction(ctx context.Context, fn transactor.TransactionFn) error {
	if t, ok := ctx.Value(ctxMemTxn{}).(*memTxn); ok && t != nil {
		return fn(ctx)
	}
	if err := verifhook.Point("badger.txn", ""); err != nil {
		return err
	}
	t := &memTxn{kv: k, writes: map[string][]byte{}}
	if err := fn(context.WithValue(ctx, ctxMemTxn{}, t)); err != nil {
		return err
	}
	for key, v := range t.writes { // the commit: one atomic step
		if v == nil {
			delete(k.m, key)
		} else {
			k.m[key] = v
		}
	}
	_ = verifhook.Point("badger.txn.done", "")
	return nil
}

func (k *memKV) Set(key, val []byte) error {
	if err := verifhook.Point("badger.set", string(key)); err != nil {
		return err
	}
	k.m[string(key)] = append([]byte{}, val...)
	_ = verifhook.Point("badger.set.done", string(key))
	return nil
}

func (k *memKV) Get(key []byte) ([]byte, error) {
	if err := verifhook.Point("badger.get", string(key)); err != nil {
		return nil, err
	}
	v, ok := k.m[string(key)]
	if !ok {
		return nil, fs_db.ErrNotFound
	}
	return append([]byte{}, v...), nil
}

func (k *memKV) Delete(key []byte) error {
	if err := verifhook.Point("badger.delete", string(key)); err != nil {
		return err
	}
	delete(k.m, string(key))
	_ = verifhook.Point("badger.delete.done", string(key))
	return nil
}

func (k *memKV) GetAll(prefix []byte) ([]badger.Item, error) {
	if err := verifhook.Point("badger.getall", string(prefix)); err != nil {
		return nil, err
	}
	var keys []string
	for key := range k.m {
		if strings.HasPrefix(key, string(prefix)) {
			keys = append(keys, key)
		}
	}
	sort.Strings(keys)
	var items []badger.Item
	for _, key := range keys {
		items = append(items, badger.Item{Key: []byte(key), Value: append([]byte{}, k.m[key]...)})
	}
	return items, nil
}

func (t *memTxn) Set(key, val []byte) error {
	t.writes[string(key)] = append([]byte{}, val...)
	return nil
}
func (t *memTxn) Delete(key []byte) error { t.writes[string(key)] = nil; return nil }
func (t *memTxn) Get(key []byte) ([]byte, error) {
	if v, ok := t.writes[string(key)]; ok {
		if v == nil {
			return nil, fs_db.ErrNotFound
		}
		return v, nil
	}
	v, ok := t.kv.m[string(key)]
	if !ok {
		return nil, fs_db.ErrNotFound
	}
	return v, nil
}
func (t *memTxn) GetAll(prefix []byte) ([]badger.Item, error) { return t.kv.GetAll(prefix) }

type light struct {
	dir     string
	pool    *wpool.Pool
	storeUC *store.UseCase
	txUC    *transaction.UseCase
	clean   *cleaner.UseCase
}

var lightCounter atomic.Int64

func lightRoot() string {
	d := os.Getenv("VERIF_DB_ROOT")
	if d == "" {
		d = os.TempDir()
	}
	return d
}

func newLight(dirMax int) (backend, error) {
	if dirMax <= 0 {
		dirMax = 100
	}
	l := &light{dir: filepath.Join(lightRoot(), fmt.Sprintf("light%d-%d", os.Getpid(), lightCounter.Add(1)))}
	root := filepath.Join(l.dir, "root0")
	if err := os.MkdirAll(root, 0o755); err != nil {
		return nil, err
	}
	ctx := context.Background()
	kv := &memKV{m: map[string][]byte{}}
	fRepo := fileRepo.New(kv)
	cfRepo := contentFileRepo.New(kv)
	cRepo := contentRepo.New()
	dRepo, err := dirRepo.New([]string{root})
	if err != nil {
		return nil, err
	}
	txRepo := transactionRepo.New()
	gen := generator.New()
	coreUC := core.New(fRepo)
	l.pool = wpool.New(wpool.Options{NumWorkers: 2, SendDuration: time.Millisecond})
	dirUC := dir.New(uint64(dirMax), dRepo, gen)
	l.clean = cleaner.New(coreUC, cRepo, cfRepo, kv, dRepo, fRepo, l.pool, txRepo)
	l.storeUC = store.New(dirUC, cRepo, cfRepo, coreUC, txRepo, gen, rand.New(rand.NewPCG(1, 2)))
	l.txUC = transaction.New(l.clean, coreUC, txRepo, gen)
	// the order of pkg/inline/db.New
	l.pool.Run(ctx)
	deleteFiles, err := coreUC.Load(ctx)
	if err != nil {
		return nil, err
	}
	l.clean.DeleteFilesAsync(ctx, deleteFiles)
	l.pool.Sched(ctx, wpool.Event{Caller: "DeleteOld every minute", Fn: func(ctx context.Context) error {
		return l.clean.DeleteOld(ctx)
	}}, time.Hour)
	return l, nil
}

func (l *light) DB() fs_db.DB                 { return (*lightDB)(l) }
func (l *light) GC(ctx context.Context) error { return l.clean.DeleteOld(ctx) }
func (l *light) Close()                       { l.pool.Stop(); os.RemoveAll(l.dir) }
func (l *light) Abandon()                     { os.RemoveAll(l.dir) }

// lightDB mirrors pkg/inline/db (the same few lines per method).
type lightDB light

func (d *lightDB) Set(ctx context.Context, key string, b []byte) error {
	return d.storeUC.Set(ctx, key, bytes.NewReader(b))
}

func (d *lightDB) SetReader(ctx context.Context, key string, r io.Reader) error {
	err := d.storeUC.Set(ctx, key, r)
	if err != nil {
		var ns fsmodel.NotEnoughSpaceError
		if errors.As(err, &ns) {
			ns.Close()
		}
	}
	return err
}

func (d *lightDB) Get(ctx context.Context, key string) ([]byte, error) {
	c, err := d.storeUC.Get(ctx, key)
	if err != nil {
		return nil, err
	}
	defer c.Close()
	return io.ReadAll(c)
}

func (d *lightDB) GetReader(ctx context.Context, key string) (io.ReadCloser, error) {
	return d.storeUC.Get(ctx, key)
}

func (d *lightDB) GetKeys(ctx context.Context) ([]string, error) { return d.storeUC.GetKeys(ctx) }
func (d *lightDB) Delete(ctx context.Context, key string) error  { return d.storeUC.Delete(ctx, key) }

func (d *lightDB) Create(ctx context.Context, key string) (fs_db.File, error) {
	return nil, errors.New("harness: Create is exercised on the assembled inline database only (C12)")
}

type lightTx struct {
	id string
	d  *lightDB
}

func (t *lightTx) ctx(ctx context.Context) context.Context { return fsmodel.StoreTxId(ctx, t.id) }
func (t *lightTx) Commit(ctx context.Context) error        { return t.d.txUC.Commit(t.ctx(ctx)) }
func (t *lightTx) Rollback(ctx context.Context) error      { return t.d.txUC.Rollback(t.ctx(ctx)) }

func (d *lightDB) Begin(ctx context.Context, level ...fsmodel.TxIsoLevel) (fs_db.Tx, error) {
	l := fs_db.IsoLevelDefault
	if len(level) > 0 {
		l = level[0]
	}
	id, err := d.txUC.Begin(ctx, l)
	if err != nil {
		return nil, err
	}
	t := &lightTx{id: id, d: d}
	return fs_db.CreateTx(d, t, t.ctx), nil
}

func (d *lightDB) Close() error { return nil }
