package det

import (
	"fmt"
	"sort"
	"strings"

	"github.com/glebziz/fs_db/internal/verifh/model"
)

// HOp is one completed client operation of a concurrent history.
type HOp struct {
	Client int
	Index  int // index within the client's script
	Call   int // logical time (scheduling-point counter) at invocation
	Ret    int // ... at return
	K      string
	Slot   int // 0 = autocommit, > 0 = transaction slot
	Lvl    int
	Key    string
	Val    model.Val // value written (set/del)
	// results
	Err     model.Err
	Got     model.Val // get: the value read (Del = not found)
	GotKeys []string
	Garbage string // get: the bytes matched no complete written content
	G       int    // managed goroutine that executed the operation
	Wild    bool   // the result is excused (known finding): any result is accepted for this read
}

func (o HOp) String() string {
	who := fmt.Sprintf("c%d", o.Client)
	tx := "auto"
	if o.Slot > 0 {
		tx = fmt.Sprintf("tx%d", o.Slot)
	}
	switch o.K {
	case "begin":
		return fmt.Sprintf("[%d..%d] %s begin tx%d level %d -> %s", o.Call, o.Ret, who, o.Slot, o.Lvl, o.Err)
	case "set", "del":
		return fmt.Sprintf("[%d..%d] %s %s %s(%q, %v) -> %s", o.Call, o.Ret, who, tx, o.K, o.Key, o.Val, o.Err)
	case "get":
		res := string(o.Err)
		if o.Err == model.OK {
			res = o.Got.String()
		}
		if o.Garbage != "" {
			res = "GARBAGE " + o.Garbage
		}
		return fmt.Sprintf("[%d..%d] %s %s get(%q) -> %s", o.Call, o.Ret, who, tx, o.Key, res)
	case "keys":
		return fmt.Sprintf("[%d..%d] %s %s keys -> %s %q", o.Call, o.Ret, who, tx, o.Err, o.GotKeys)
	case "failed-create":
		return fmt.Sprintf("[%d..%d] %s %s create+write+close(%q, %v) -> %s", o.Call, o.Ret, who, tx, o.Key, o.Val, o.Err)
	default:
		return fmt.Sprintf("[%d..%d] %s %s %s -> %s", o.Call, o.Ret, who, tx, o.K, o.Err)
	}
}

type linState struct {
	m     *model.M
	slots map[int]int
}

func (s linState) clone() linState {
	ns := linState{m: s.m.Clone(), slots: map[int]int{}}
	for k, v := range s.slots {
		ns.slots[k] = v
	}
	return ns
}

func (s linState) hash() string {
	ks := make([]int, 0, len(s.slots))
	for k := range s.slots {
		ks = append(ks, k)
	}
	sort.Ints(ks)
	var b strings.Builder
	for _, k := range ks {
		fmt.Fprintf(&b, "%d>%d,", k, s.slots[k])
	}
	return b.String() + s.m.Hash()
}

func (s linState) tx(slot int) int {
	if slot == 0 {
		return 0
	}
	if id, ok := s.slots[slot]; ok {
		return id
	}
	return -1 // unknown transaction
}

// step applies op to the state if the observed result is one the sequential specification allows.
func (s linState) step(o HOp) bool {
	switch o.K {
	case "begin":
		if o.Err != model.OK {
			return false
		}
		s.slots[o.Slot] = s.m.Begin(o.Lvl)
		return true
	case "set", "del":
		return s.m.Write(s.tx(o.Slot), o.Key, o.Val) == o.Err
	case "get":
		if o.Wild {
			_, e := s.m.Read(s.tx(o.Slot), o.Key)
			return e == model.OK || o.Err == e
		}
		if o.Garbage != "" {
			return false
		}
		cands, e := s.m.Read(s.tx(o.Slot), o.Key)
		if e != model.OK {
			return o.Err == e
		}
		for _, c := range cands {
			if c.Del && o.Err == model.ErrNotFound {
				return true
			}
			if !c.Del && o.Err == model.OK && c == o.Got {
				return true
			}
		}
		return false
	case "keys":
		if o.Wild {
			_, _, e := s.m.Keys(s.tx(o.Slot))
			return e == model.OK || o.Err == e
		}
		must, may, e := s.m.Keys(s.tx(o.Slot))
		if e != model.OK || o.Err != model.OK {
			return o.Err == e
		}
		got := map[string]bool{}
		for _, k := range o.GotKeys {
			got[k] = true
		}
		allowed := map[string]bool{}
		for _, k := range must {
			allowed[k] = true
			if !got[k] {
				return false
			}
		}
		for _, k := range may {
			allowed[k] = true
		}
		for k := range got {
			if !allowed[k] {
				return false
			}
		}
		return true
	case "commit":
		return s.m.Commit(s.tx(o.Slot)) == o.Err
	case "rollback":
		return s.m.Rollback(s.tx(o.Slot)) == o.Err
	case "gc":
		return o.Err == model.OK
	case "failed-create":
		// storing failed: the key is unchanged and the error has the class of the cause
		return o.Err != model.OK
	}
	panic("lin: unknown op " + o.K)
}

// Linearizable searches for an order of ops, consistent with real time (a.Ret < b.Call => a before
// b), that the sequential model accepts starting from init. It returns one witness order, or the
// longest prefix it could linearize.
func Linearizable(init *model.M, slots map[int]int, ops []HOp) (ok bool, witness []int, explored int) {
	n := len(ops)
	if n > 62 {
		panic("lin: history too long")
	}
	bad := map[string]bool{}
	var best []int
	var order []int
	var dfs func(st linState, done uint64) bool
	dfs = func(st linState, done uint64) bool {
		explored++
		if len(order) > len(best) {
			best = append([]int(nil), order...)
		}
		if bits(done) == n {
			return true
		}
		key := fmt.Sprintf("%x|%s", done, st.hash())
		if bad[key] {
			return false
		}
		// minimal elements: no other pending op returned before this one was called
		minRet := int(^uint(0) >> 1)
		for i := 0; i < n; i++ {
			if done>>uint(i)&1 == 0 && ops[i].Ret < minRet {
				minRet = ops[i].Ret
			}
		}
		for i := 0; i < n; i++ {
			if done>>uint(i)&1 == 1 || ops[i].Call > minRet {
				continue
			}
			ns := st.clone()
			if !ns.step(ops[i]) {
				continue
			}
			order = append(order, i)
			if dfs(ns, done|1<<uint(i)) {
				return true
			}
			order = order[:len(order)-1]
		}
		bad[key] = true
		return false
	}
	st := linState{m: init.Clone(), slots: map[int]int{}}
	for k, v := range slots {
		st.slots[k] = v
	}
	if dfs(st, 0) {
		return true, append([]int(nil), order...), explored
	}
	return false, best, explored
}

func bits(x uint64) int {
	n := 0
	for ; x != 0; x &= x - 1 {
		n++
	}
	return n
}
