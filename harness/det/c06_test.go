package det

import (
	"fmt"
	"testing"

	"pgregory.net/rapid"

	"github.com/glebziz/fs_db/internal/verifh/ev"
)

// ---- C06: individual operations are atomic (linearizable); no deadlock, no panic -----------------

func c06Catalogue() []Case {
	set := func(k, l int) COp { return COp{K: "set", Key: k, Len: l} }
	get := func(k int) COp { return COp{K: "get", Key: k} }
	return []Case{
		{Prof: "c06", Keys: []string{"x"}, Epilogue: true, Note: "writer || reader",
			Prologue: []COp{set(0, 1)}, Clients: [][]COp{{set(0, 2)}, {get(0), get(0)}}},
		{Prof: "c06", Keys: []string{"x"}, Epilogue: true, Note: "overwrite || gc || reader",
			Prologue: []COp{set(0, 1), set(0, 2)}, Clients: [][]COp{{set(0, 3)}, {{K: "gc"}}, {get(0)}}},
		{Prof: "c06", Keys: []string{"x", "y"}, Epilogue: true, Note: "writer || writer (other key) || keys",
			Prologue: []COp{set(0, 1)}, Clients: [][]COp{{set(0, 2)}, {set(1, 2)}, {{K: "keys"}}}},
		{Prof: "c06", Keys: []string{"x"}, Epilogue: true, Note: "delete || reader || keys",
			Prologue: []COp{set(0, 1)}, Clients: [][]COp{{{K: "del", Key: 0}}, {get(0), {K: "keys"}}}},
		{Prof: "c06", Keys: []string{"x", "y"}, Epilogue: true, Note: "RC commit (2 keys) || RU reader",
			Prologue: []COp{set(0, 1), {K: "begin", Slot: 1, Lvl: 1}, {K: "set", Slot: 1, Key: 0, Len: 2}, {K: "set", Slot: 1, Key: 1, Len: 2}, {K: "begin", Slot: 2, Lvl: 0}},
			Clients:  [][]COp{{{K: "commit", Slot: 1}}, {{K: "get", Slot: 2, Key: 0}, {K: "get", Slot: 2, Key: 1}, {K: "keys", Slot: 2}}}},
		{Prof: "c06", Keys: []string{"x"}, Epilogue: true, Note: "rollback || RU reader",
			Prologue: []COp{set(0, 1), {K: "begin", Slot: 1, Lvl: 1}, {K: "set", Slot: 1, Key: 0, Len: 2}, {K: "begin", Slot: 2, Lvl: 0}},
			Clients:  [][]COp{{{K: "rollback", Slot: 1}}, {{K: "get", Slot: 2, Key: 0}, {K: "get", Slot: 2, Key: 0}}}},
		{Prof: "c06", Keys: []string{"x", "y"}, Epilogue: true, Note: "commit || commit on different keys || reader",
			Prologue: []COp{{K: "begin", Slot: 1, Lvl: 1}, {K: "set", Slot: 1, Key: 0, Len: 2}, {K: "begin", Slot: 2, Lvl: 0}, {K: "set", Slot: 2, Key: 1, Len: 3}},
			Clients:  [][]COp{{{K: "commit", Slot: 1}}, {{K: "commit", Slot: 2}}, {get(0), get(1)}}},
		{Prof: "c06", Keys: []string{"x"}, Epilogue: true, Note: "in-tx overwrite commit (cleanup of superseded in-tx version) || RU reader || gc",
			Prologue: []COp{{K: "begin", Slot: 1, Lvl: 1}, {K: "set", Slot: 1, Key: 0, Len: 2}, {K: "set", Slot: 1, Key: 0, Len: 3}, {K: "begin", Slot: 2, Lvl: 0}},
			Clients:  [][]COp{{{K: "commit", Slot: 1}}, {{K: "get", Slot: 2, Key: 0}}, {{K: "gc"}}}},
		{Prof: "c06", Keys: []string{"x"}, Epilogue: true, Note: "begin+write+commit || begin+write+rollback || writer",
			Clients: [][]COp{{{K: "begin", Slot: 1, Lvl: 1}, {K: "set", Slot: 1, Key: 0, Len: 2}, {K: "commit", Slot: 1}},
				{{K: "begin", Slot: 2, Lvl: 0}, {K: "set", Slot: 2, Key: 0, Len: 3}, {K: "rollback", Slot: 2}}, {set(0, 4)}}},
		{Prof: "c06", Keys: []string{"x"}, Epilogue: true, Note: "three writers of one key",
			Clients: [][]COp{{set(0, 1)}, {set(0, 2)}, {set(0, 3)}}},
		{Prof: "c06", Keys: []string{"x"}, Epilogue: true, Note: "writer || gc || gc",
			Prologue: []COp{set(0, 1), set(0, 2), set(0, 3)}, Clients: [][]COp{{set(0, 4), get(0)}, {{K: "gc"}}, {{K: "gc"}}}},
		{Prof: "c06", Keys: []string{"x", "y"}, Epilogue: true, Deep: true, Note: "tx begins, writes, ends || another tx begins, writes, reads its own write, commits (transaction objects are pooled)",
			Clients: [][]COp{{{K: "begin", Slot: 1, Lvl: 1}, {K: "set", Slot: 1, Key: 0, Len: 2}, {K: "rollback", Slot: 1}},
				{{K: "begin", Slot: 2, Lvl: 1}, {K: "set", Slot: 2, Key: 1, Len: 3}, {K: "get", Slot: 2, Key: 1}, {K: "commit", Slot: 2}}}},
		{Prof: "c06", Keys: []string{"x", "y"}, Epilogue: true, Deep: true, Note: "tx commits || another tx begins, writes, reads its own write, commits",
			Prologue: []COp{{K: "begin", Slot: 1, Lvl: 0}, {K: "set", Slot: 1, Key: 0, Len: 2}},
			Clients: [][]COp{{{K: "commit", Slot: 1}},
				{{K: "begin", Slot: 2, Lvl: 1}, {K: "set", Slot: 2, Key: 1, Len: 3}, {K: "get", Slot: 2, Key: 1}, {K: "commit", Slot: 2}}}},
		{Prof: "c06", Keys: []string{"x"}, Epilogue: true, Deep: true, Note: "writer || RC tx write-then-read || observer",
			Prologue: []COp{{K: "begin", Slot: 1, Lvl: 1}},
			Clients:  [][]COp{{set(0, 2)}, {{K: "set", Slot: 1, Key: 0, Len: 3}, {K: "get", Slot: 1, Key: 0}}, {get(0)}}},
		{Prof: "c06", Keys: []string{"x"}, Epilogue: true, Deep: true, Note: "writer || RC tx write-then-read || RU observer",
			Prologue: []COp{{K: "begin", Slot: 1, Lvl: 1}, {K: "begin", Slot: 2, Lvl: 0}},
			Clients:  [][]COp{{set(0, 2)}, {{K: "set", Slot: 1, Key: 0, Len: 3}, {K: "get", Slot: 1, Key: 0}}, {{K: "get", Slot: 2, Key: 0}}}},
		// two readers of one key overlap while a writer completes in between (reads must not be served from one
		// another's work: each takes effect inside its own interval)
		{Prof: "c06", Keys: []string{"x"}, Epilogue: true, Note: "reader || writer-then-reader of the same key",
			Prologue: []COp{set(0, 1)}, Clients: [][]COp{{get(0)}, {set(0, 2), get(0)}}},
		{Prof: "c06", Keys: []string{"x"}, Epilogue: true, Note: "reader || reader || writer of the same key",
			Prologue: []COp{set(0, 1)}, Clients: [][]COp{{get(0)}, {get(0), get(0)}, {set(0, 2)}}},
		{Prof: "c06", Keys: []string{"x", "y"}, Epilogue: true, Note: "lister || writer-then-lister",
			Prologue: []COp{set(0, 1)}, Clients: [][]COp{{{K: "keys"}}, {set(1, 2), {K: "keys"}}}},
		// a listing is one instant: it cannot show the effect of a later write without that of an earlier one
		{Prof: "c06", Keys: []string{"x", "z"}, Epilogue: true, Note: "lister || create one key, then delete another",
			Prologue: []COp{set(0, 1)}, Clients: [][]COp{{{K: "keys"}}, {set(1, 2), {K: "del", Key: 0}}}},
		{Prof: "c06", Keys: []string{"x", "y"}, Epilogue: true, Note: "lister || delete one key, then another",
			Prologue: []COp{set(0, 1), set(1, 1)}, Clients: [][]COp{{{K: "keys"}}, {{K: "del", Key: 0}, {K: "del", Key: 1}}}},
		// the directory limit is 2 here (light backend only): the prologue fills the only directory, so the
		// concurrent writes meet the moment it is retired and replaced
		{Prof: "c06", Keys: []string{"x", "y", "z", "w"}, Epilogue: true, Deep: true, DirMax: 2, Note: "two writers at the moment the only directory is full",
			Prologue: []COp{set(0, 1), set(1, 1)}, Clients: [][]COp{{set(2, 2)}, {set(3, 2)}}},
		{Prof: "c06", Keys: []string{"x", "y", "z"}, Epilogue: true, DirMax: 2, Note: "writer || writer || reader at the moment the only directory is full",
			Prologue: []COp{set(0, 1), set(1, 1)}, Clients: [][]COp{{set(2, 2)}, {set(0, 2)}, {get(1), {K: "keys"}}}},
		{Prof: "c06", Keys: []string{"x"}, Epilogue: true, Note: "RC tx read-own-write || autocommit writer",
			Prologue: []COp{{K: "begin", Slot: 1, Lvl: 1}},
			Clients:  [][]COp{{{K: "set", Slot: 1, Key: 0, Len: 2}, {K: "get", Slot: 1, Key: 0}, {K: "commit", Slot: 1}}, {set(0, 5), get(0)}}},
	}
}

func TestC06Enum(t *testing.T) {
	const prop, part = "C06", "enum"
	t.Cleanup(func() { ev.Flush(prop, part) })
	if ev.Replaying() {
		ev.Check(t, prop, part, func(*rapid.T) Case { return Case{} }, execJudge)
		return
	}
	shard, n := shardInfo()
	counter := 0
	progs := 0
	for _, prog := range c06Catalogue() {
		if prog.DirMax > 0 {
			continue // the directory limit is adjustable on the light backend only: parts lenum and lrand run these
		}
		progs++
		if !enumerateSingle(t, prop, part, prog, shard, n, &counter) {
			return
		}
	}
	ev.Note(prop, fmt.Sprintf("part enum: every single forced preemption of the concurrent phase of %d catalogue programs (%d schedules, sharded %d ways)", progs, counter, n))
}

func genC06(t *rapid.T) Case {
	c := Case{Prof: "c06", Epilogue: true}
	nk := rapid.IntRange(1, 3).Draw(t, "nkeys")
	c.Keys = []string{"x", "y", "z"}[:nk]
	// prologue: create versions
	for n := rapid.IntRange(0, 4).Draw(t, "pre"); n > 0; n-- {
		k := "set"
		if rapid.IntRange(0, 5).Draw(t, "predel") == 0 {
			k = "del"
		}
		c.Prologue = append(c.Prologue, COp{K: k, Key: rapid.IntRange(0, nk-1).Draw(t, "pkey"), Len: 1})
	}
	nc := rapid.IntRange(2, 4).Draw(t, "clients")
	slot := 1
	for ci := 0; ci < nc; ci++ {
		var s []COp
		kind := rapid.IntRange(0, 4).Draw(t, "clientKind")
		switch {
		case kind == 0: // the collector
			s = append(s, COp{K: "gc"})
			if rapid.Bool().Draw(t, "gc2") {
				s = append(s, COp{K: "gc"})
			}
		case kind <= 2: // autocommit client
			for n := rapid.IntRange(1, 4).Draw(t, "nops"); n > 0; n-- {
				k := rapid.SampledFrom([]string{"set", "set", "get", "get", "del", "keys"}).Draw(t, "kind")
				s = append(s, COp{K: k, Key: rapid.IntRange(0, nk-1).Draw(t, "key"), Len: 2})
			}
		default: // a ReadUncommitted / ReadCommitted transaction driven by this client
			lvl := rapid.IntRange(0, 1).Draw(t, "lvl")
			begunInPrologue := rapid.Bool().Draw(t, "early")
			if begunInPrologue {
				c.Prologue = append(c.Prologue, COp{K: "begin", Slot: slot, Lvl: lvl})
				if rapid.Bool().Draw(t, "earlyWrite") {
					c.Prologue = append(c.Prologue, COp{K: "set", Slot: slot, Key: rapid.IntRange(0, nk-1).Draw(t, "ekey"), Len: 3})
				}
			} else {
				s = append(s, COp{K: "begin", Slot: slot, Lvl: lvl})
			}
			for n := rapid.IntRange(0, 3).Draw(t, "nops"); n > 0; n-- {
				k := rapid.SampledFrom([]string{"set", "get", "get", "del", "keys"}).Draw(t, "kind")
				s = append(s, COp{K: k, Slot: slot, Key: rapid.IntRange(0, nk-1).Draw(t, "key"), Len: 4})
			}
			s = append(s, COp{K: rapid.SampledFrom([]string{"commit", "commit", "rollback"}).Draw(t, "end"), Slot: slot})
			slot++
		}
		c.Clients = append(c.Clients, s)
	}
	c.Sched = genSchedule(t, 300)
	return c
}

func TestC06Rand(t *testing.T) { ev.Check(t, "C06", "rand", genC06, execJudge) }
