package det

import (
	"fmt"
	"os"
	"strconv"
	"testing"

	"pgregory.net/rapid"

	"github.com/glebziz/fs_db/internal/verifh/ev"
)

// execJudge runs a case and applies the common oracle.
func execJudge(c Case) *ev.Result {
	if c.Search > 0 {
		return execSearch(c)
	}
	return execJudge1(c)
}

// execSearch: see Case.Search.
func execSearch(c Case) *ev.Result {
	var hit *ev.Result
	runs := 0
	EnumBounded(c.Search, 0, 1, func(pre [][2]int) ([]int, bool) {
		cs := c
		cs.Search = 0
		cs.Sched = Schedule{Preempt: pre}
		var cands []int
		CountCands = &cands
		r := execJudge1(cs)
		CountCands = nil
		runs++
		if r.Fail != "" {
			r.Fail = fmt.Sprintf("with forced preemptions %v: %s", pre, r.Fail)
			hit = r
			return cands, false
		}
		if c.FindKnown != "" {
			for _, k := range r.KnownHits {
				if k == c.FindKnown {
					hit = r
					return cands, false
				}
			}
		}
		return cands, true
	})
	if hit == nil {
		hit = &ev.Result{}
	}
	hit.Count("search_runs", int64(runs))
	return hit
}

func execJudge1(c Case) *ev.Result {
	r := &ev.Result{}
	run := Execute(c, false)
	Judge(c, run, r)
	if r.Fail != "" {
		// run again with tracing for the report (deterministic: same program, same schedule)
		r2 := &ev.Result{}
		run2 := Execute(c, true)
		Judge(c, run2, r2)
		if r2.Fail != "" {
			r.Trace = r2.Trace
		} else {
			r.Logf("NOTE: the failure did not reproduce on a second execution of the same case")
		}
	}
	r.NonTrivial = run.Overlap
	if run.Overlap {
		r.Class("overlap")
	}
	r.Count("steps_concurrent_phase", int64(run.ConcTo-run.ConcFrom))
	return r
}

// enumerateSingle runs prog under the default schedule, then under every single forced preemption
// of its concurrent phase. It returns the number of runs and stops at the first failure.
func enumerateSingle(t *testing.T, prop, part string, prog Case, shard, nshards int, counter *int) bool {
	// which client the default schedule runs first matters for what one preemption can reach:
	// enumerate every rotation of the client list
	for rot := 0; rot < len(prog.Clients); rot++ {
		p := prog
		p.Clients = append(append([][]COp(nil), prog.Clients[rot:]...), prog.Clients[:rot]...)
		if !enumerateSingle1(t, prop, part, p, shard, nshards, counter) {
			return false
		}
	}
	return true
}

func enumerateSingle1(t *testing.T, prop, part string, prog Case, shard, nshards int, counter *int) bool {
	var cands []int
	CountCands = &cands
	base := prog
	base.Sched = Schedule{}
	r := execJudge(base)
	CountCands = nil
	if !ev.Direct(t, prop, part, base, r) {
		return false
	}
	for k := 0; k < len(cands); k++ {
		n := cands[k]
		for c := 0; c < n-1; c++ {
			*counter++
			if *counter%nshards != shard {
				continue
			}
			cs := prog
			cs.Sched = Schedule{Preempt: [][2]int{{k, c}}}
			if !ev.Direct(t, prop, part, cs, execJudge(cs)) {
				return false
			}
		}
	}
	return true
}

func envInt(name string) int {
	v, _ := strconv.Atoi(os.Getenv(name))
	return v
}

func shardInfo() (int, int) {
	s, _ := strconv.Atoi(os.Getenv("VERIF_SHARD"))
	n, _ := strconv.Atoi(os.Getenv("VERIF_NSHARDS"))
	if n < 1 {
		n = 1
	}
	return s, n
}

// ---- C07: concurrent snapshot commits with intersecting write sets ----------------------------

func c07Catalogue() []Case {
	var out []Case
	for _, lv := range [][2]int{{2, 2}, {3, 3}, {2, 3}} {
		// two snapshot transactions, one shared key
		out = append(out, Case{Prof: "c07", Keys: []string{"x", "y"}, Epilogue: true, Note: fmt.Sprintf("2 committers levels %v, key x", lv),
			Prologue: []COp{{K: "set", Key: 0, Len: 3}, {K: "begin", Slot: 1, Lvl: lv[0]}, {K: "begin", Slot: 2, Lvl: lv[1]},
				{K: "set", Slot: 1, Key: 0, Len: 4}, {K: "set", Slot: 2, Key: 0, Len: 5}},
			Clients: [][]COp{{{K: "commit", Slot: 1}}, {{K: "commit", Slot: 2}}}})
	}
	// overlapping on one of two keys each
	out = append(out, Case{Prof: "c07", Keys: []string{"x", "y", "z"}, Epilogue: true, Note: "write sets {x,y} and {y,z}",
		Prologue: []COp{{K: "begin", Slot: 1, Lvl: 2}, {K: "begin", Slot: 2, Lvl: 3},
			{K: "set", Slot: 1, Key: 0, Len: 1}, {K: "set", Slot: 1, Key: 1, Len: 2}, {K: "set", Slot: 2, Key: 1, Len: 3}, {K: "del", Slot: 2, Key: 2}},
		Clients: [][]COp{{{K: "commit", Slot: 1}}, {{K: "commit", Slot: 2}}}})
	// a snapshot committer against an autocommit writer of the same key
	out = append(out, Case{Prof: "c07", Keys: []string{"x"}, Epilogue: true, Note: "committer vs autocommit writer",
		Prologue: []COp{{K: "set", Key: 0, Len: 1}, {K: "begin", Slot: 1, Lvl: 2}, {K: "set", Slot: 1, Key: 0, Len: 2}},
		Clients:  [][]COp{{{K: "commit", Slot: 1}}, {{K: "set", Key: 0, Len: 3}}}})
	// three parties: an autocommit writer, a snapshot transaction that begins, writes and commits
	// concurrently, and the commit of an older snapshot transaction - all on one key
	out = append(out, Case{Prof: "c07", Keys: []string{"x"}, Epilogue: true, Deep: true, Note: "writer || begin+write+commit || older committer",
		Prologue: []COp{{K: "begin", Slot: 1, Lvl: 2}, {K: "set", Slot: 1, Key: 0, Len: 1}},
		Clients:  [][]COp{{{K: "set", Key: 0, Len: 2}}, {{K: "begin", Slot: 2, Lvl: 2}, {K: "set", Slot: 2, Key: 0, Len: 3}, {K: "commit", Slot: 2}}, {{K: "commit", Slot: 1}}}})
	// three committers on one key
	out = append(out, Case{Prof: "c07", Keys: []string{"x"}, Epilogue: true, Note: "3 committers",
		Prologue: []COp{{K: "begin", Slot: 1, Lvl: 2}, {K: "begin", Slot: 2, Lvl: 2}, {K: "begin", Slot: 3, Lvl: 3},
			{K: "set", Slot: 1, Key: 0, Len: 1}, {K: "set", Slot: 2, Key: 0, Len: 2}, {K: "set", Slot: 3, Key: 0, Len: 3}},
		Clients: [][]COp{{{K: "commit", Slot: 1}}, {{K: "commit", Slot: 2}}, {{K: "commit", Slot: 3}}}})
	return out
}

func TestC07Enum(t *testing.T) {
	const prop, part = "C07", "enum"
	t.Cleanup(func() { ev.Flush(prop, part) })
	if ev.Replaying() {
		ev.Check(t, prop, part, func(*rapid.T) Case { return Case{} }, execJudge)
		return
	}
	shard, n := shardInfo()
	counter := 0
	for _, prog := range c07Catalogue() {
		if !enumerateSingle(t, prop, part, prog, shard, n, &counter) {
			return
		}
	}
	ev.Note(prop, fmt.Sprintf("part enum: every single forced preemption of the concurrent phase of %d catalogue programs (%d schedules, sharded %d ways)", len(c07Catalogue()), counter, n))
}

func genSchedule(t *rapid.T, maxStep int) Schedule {
	if rapid.IntRange(0, 2).Draw(t, "schedKind") == 0 {
		th := rapid.SampledFrom([]int{5, 13, 26, 77}).Draw(t, "threshold")
		return Schedule{Tape: rapid.SliceOfN(rapid.Byte(), 0, 400).Draw(t, "tape"), Threshold: th}
	}
	n := rapid.IntRange(0, 6).Draw(t, "npreempt")
	var s Schedule
	for i := 0; i < n; i++ {
		// positions: uniform over the expected length of the concurrent phase (rapid's integers are biased to small values)
		at := int(rapid.Uint16().Draw(t, "at")) % (maxStep + 1)
		s.Preempt = append(s.Preempt, [2]int{at, rapid.IntRange(0, 3).Draw(t, "choice")})
	}
	return s
}

func genC07(t *rapid.T) Case {
	c := Case{Prof: "c07", Epilogue: true}
	nk := rapid.IntRange(1, 3).Draw(t, "nkeys")
	c.Keys = []string{"x", "y", "z"}[:nk]
	ntx := rapid.IntRange(2, 3).Draw(t, "ntx")
	for k := 0; k < nk; k++ {
		if rapid.Bool().Draw(t, "init") {
			c.Prologue = append(c.Prologue, COp{K: "set", Key: k, Len: rapid.IntRange(0, 9).Draw(t, "len")})
		}
	}
	late := map[int]bool{} // transactions that begin (and write) inside their client's script
	for s := 1; s <= ntx; s++ {
		lvl := rapid.SampledFrom([]int{2, 3, 2, 3, 1}).Draw(t, "lvl")
		if s > 1 && rapid.IntRange(0, 2).Draw(t, "lateBegin") == 0 {
			late[s] = true
			c.Clients = append(c.Clients, []COp{{K: "begin", Slot: s, Lvl: lvl}})
		} else {
			c.Prologue = append(c.Prologue, COp{K: "begin", Slot: s, Lvl: lvl})
			c.Clients = append(c.Clients, nil)
		}
	}
	for s := 1; s <= ntx; s++ {
		nw := rapid.IntRange(1, 2).Draw(t, "nwrites")
		for i := 0; i < nw; i++ {
			k := "set"
			if rapid.IntRange(0, 4).Draw(t, "del") == 0 {
				k = "del"
			}
			op := COp{K: k, Slot: s, Key: rapid.IntRange(0, nk-1).Draw(t, "key"), Len: rapid.IntRange(0, 9).Draw(t, "len")}
			if k == "set" && rapid.IntRange(0, 4).Draw(t, "viaCreate") == 0 {
				// the same write through the file-handle API of the transaction (heavy backend only)
				op = COp{K: "create", Slot: s, Key: op.Key, Sizes: []int{8 + op.Len}}
			}
			if late[s] || rapid.IntRange(0, 3).Draw(t, "lateWrite") == 0 {
				c.Clients[s-1] = append(c.Clients[s-1], op)
			} else {
				c.Prologue = append(c.Prologue, op)
			}
		}
	}
	for s := 1; s <= ntx; s++ {
		c.Clients[s-1] = append(c.Clients[s-1], COp{K: "commit", Slot: s})
	}
	if rapid.IntRange(0, 1).Draw(t, "autoWriter") == 0 {
		var w []COp
		for n := rapid.IntRange(1, 2).Draw(t, "awrites"); n > 0; n-- {
			w = append(w, COp{K: "set", Key: rapid.IntRange(0, nk-1).Draw(t, "key"), Len: 2})
		}
		c.Clients = append(c.Clients, w)
	}
	c.Sched = genSchedule(t, 160)
	return c
}

func TestC07Rand(t *testing.T) { ev.Check(t, "C07", "rand", genC07, execJudge) }
