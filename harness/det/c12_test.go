package det

import (
	"fmt"
	"testing"

	"pgregory.net/rapid"

	"github.com/glebziz/fs_db/internal/verifh/ev"
	"github.com/glebziz/fs_db/internal/verifh/model"
)

// ---- C12: Create + Write* + Close against the asynchronous storing goroutine ---------------------

func createCase(note string, sizes []int, enospc int) Case {
	return Case{Prof: "c12", Keys: []string{"f"}, Epilogue: true, Note: note,
		Prologue: []COp{{K: "set", Key: 0, Len: 1}},
		Clients:  [][]COp{{{K: "create", Key: 0, Sizes: sizes, Enospc: enospc}}}}
}

func c12Catalogue() []Case {
	return []Case{
		createCase("abc, empty, def", []int{3, 0, 3}, 0),
		createCase("no write at all", nil, 0),
		createCase("empty write first", []int{0, 5}, 0),
		createCase("empty write last", []int{5, 0}, 0),
		createCase("only empty writes", []int{0, 0}, 0),
		createCase("buffer-size writes", []int{2048, 1, 32768, 0, 2049}, 0),
		createCase("storing fails (no space)", []int{3, 3}, 1),
		createCase("storing fails after the first chunk", []int{40000, 0, 40000}, 33000),
	}
}

func execC12(c Case) *ev.Result {
	r := execJudge(c)
	if r.Fail == "" {
		// the statement's error side: a failed store must surface as ErrNoFreeSpace
		// (checked from the recorded history by re-running is unnecessary: Judge saw the classes)
	}
	for _, cl := range c.Clients {
		for _, op := range cl {
			if op.K == "create" {
				for _, n := range op.Sizes {
					if n == 0 {
						r.NonTrivial = true
						r.Class("empty-write")
					}
				}
				if op.Enospc > 0 {
					r.Class("store-fails")
				}
			}
		}
	}
	if len(c.Sched.Preempt) > 0 || len(c.Sched.Tape) > 0 {
		r.NonTrivial = true
	}
	return r
}

func TestC12Enum(t *testing.T) {
	const prop, part = "C12", "enum"
	t.Cleanup(func() { ev.Flush(prop, part) })
	if ev.Replaying() {
		ev.Check(t, prop, part, func(*rapid.T) Case { return Case{} }, execC12)
		return
	}
	shard, n := shardInfo()
	counter := 0
	for _, prog := range c12Catalogue() {
		var cands []int
		CountCands = &cands
		base := prog
		base.Sched = Schedule{}
		r := execC12(base)
		CountCands = nil
		if !ev.Direct(t, prop, part, base, r) {
			return
		}
		for k := 0; k < len(cands); k++ {
			for c := 0; c < cands[k]-1; c++ {
				counter++
				if counter%n != shard {
					continue
				}
				cs := prog
				cs.Sched = Schedule{Preempt: [][2]int{{k, c}}}
				if !ev.Direct(t, prop, part, cs, execC12(cs)) {
					return
				}
			}
		}
	}
	ev.Note(prop, fmt.Sprintf("part enum: every single forced preemption of %d catalogue programs (%d schedules, sharded %d ways)", len(c12Catalogue()), counter, n))
}

func genC12(t *rapid.T) Case {
	nw := rapid.IntRange(0, 12).Draw(t, "nwrites")
	var sizes []int
	for i := 0; i < nw; i++ {
		sizes = append(sizes, rapid.OneOf(rapid.SampledFrom([]int{0, 0, 1, 2047, 2048, 2049, 32767, 32768, 32769}), rapid.IntRange(0, 5000)).Draw(t, "size"))
	}
	enospc := 0
	if rapid.IntRange(0, 4).Draw(t, "storeFails") == 0 {
		enospc = rapid.SampledFrom([]int{1, 100, 2048, 33000, 70000}).Draw(t, "enospcAt")
	}
	c := createCase("generated", sizes, enospc)
	if rapid.Bool().Draw(t, "second") { // a second writer of the same key in parallel (concurrent readers are C06's subject)
		c.Clients = append(c.Clients, []COp{{K: "create", Key: 0, Sizes: []int{4, 0, 4}}})
	}
	c.Sched = genSchedule(t, 200)
	return c
}

func TestC12Rand(t *testing.T) { ev.Check(t, "C12", "rand", genC12, execC12) }

var _ = model.OK
