package det

import (
	"context"
	"encoding/json"
	"fmt"
	"os"
	"path/filepath"
	"testing"
	"time"

	"pgregory.net/rapid"

	"github.com/glebziz/fs_db/internal/utils/wpool"
	"github.com/glebziz/fs_db/internal/verifh/detsync"
	"github.com/glebziz/fs_db/internal/verifh/ev"
)

// ---- C16: the real worker pool source under the owned scheduler -----------------------------------

// POp is one step of a pool actor: run | stop | send | cancelrun (the context that was given to the
// last Run is cancelled by its owner - a start-up context, say - without Stop being called).
type POp struct {
	K   string `json:"k"`
	Job string `json:"job,omitempty"` // noop | gate (blocks until the harness opens the gate) | ctx (waits for its context)
	// Cctx: the caller's context of this Send. 0 = live; 1 = cancelled before Send is called; 2 = cancelled
	// right after Send has returned (the request that produced the job is over). The job must run all the same.
	Cctx int `json:"cctx,omitempty"`
}

type PoolCase struct {
	Workers  int      `json:"workers"`
	Pre      []POp    `json:"pre,omitempty"`       // sequential prologue (normally: run)
	Actors   [][]POp  `json:"actors"`              // concurrent actors
	Post     []POp    `json:"post,omitempty"`      // sequential epilogue after quiescence (normally: stop)
	Lifecyle bool     `json:"lifecycle,omitempty"` // "any order" profile: only no-panic/no-deadlock/at-most-once are demanded
	Sched    Schedule `json:"sched"`
}

type jobRec struct {
	id                int
	kind              string
	sendCall, sendRet int
	starts, ends      []int
	whileRunning      bool // Send began after a Run had returned and returned before any Stop was called
}

type poolRun struct {
	out       detsync.Outcome
	jobs      []*jobRec
	stopRets  []int
	stopCalls []int
	stopPairs [][2]int // (call, return) of every Stop, also of overlapping ones
	cancels   []int    // moments at which the context given to Run was cancelled
	runRets   []int
	runCalls  []int
	deferred  int
	cands     []int
	idleAt    int
}

func runPool(c PoolCase, count bool) *poolRun {
	res := &poolRun{}
	var inner detsync.Policy = c.Sched.Policy()
	var cnt *detsync.Counting
	if count {
		cnt = &detsync.Counting{Inner: inner}
		inner = cnt
	}
	pol := &phasePolicy{inner: inner}
	clock := 0
	tick := func() int { clock++; return clock }
	res.out = detsync.Run(detsync.Config{Policy: pol}, func() {
		w := c.Workers
		if w < 1 {
			w = 1
		}
		p := wpool.New(wpool.Options{NumWorkers: w, SendDuration: time.Millisecond})
		ctx := context.Background()
		var gateM detsync.Mutex
		gate := detsync.NewCond(&gateM)
		gateOpen := false
		running, stopCalled, dead := false, false, false
		cancelRun := func() {}
		totalSends, returnedSends := 0, 0
		for _, sc := range append(append([][]POp{c.Pre}, c.Actors...), c.Post) {
			for _, op := range sc {
				if op.K == "send" {
					totalSends++
				}
			}
		}
		openGate := func() {
			gateM.Lock()
			gateOpen = true
			gateM.Unlock()
			gate.Broadcast()
		}
		do := func(op POp) {
			switch op.K {
			case "run":
				rctx, cancel := context.WithCancel(ctx)
				res.runCalls = append(res.runCalls, tick())
				p.Run(rctx)
				if !dead { // a pool whose Run context was cancelled stays dead until it has been stopped
					running = true
					stopCalled = false
					cancelRun = cancel
				}
				res.runRets = append(res.runRets, tick())
			case "cancelrun":
				res.cancels = append(res.cancels, tick())
				cancelRun()
				if running {
					running, dead = false, true
				}
			case "stop":
				stopCalled = true
				sc := tick()
				res.stopCalls = append(res.stopCalls, sc)
				p.Stop()
				running, dead = false, false
				sr := tick()
				res.stopRets = append(res.stopRets, sr)
				res.stopPairs = append(res.stopPairs, [2]int{sc, sr})
			case "sched":
				// a periodic job (as the database schedules its collector): ticks are not counted, but the loop
				// behind it is one more sender that Stop has to get rid of
				if running && !stopCalled {
					p.Sched(ctx, wpool.Event{Caller: "periodic", Fn: func(context.Context) error { return nil }}, time.Millisecond)
				}
			case "send":
				j := &jobRec{id: len(res.jobs), kind: op.Job}
				res.jobs = append(res.jobs, j)
				okBefore := running && !stopCalled
				j.sendCall = tick()
				sctx, cancelCaller := ctx, func() {}
				if op.Cctx != 0 {
					sctx, cancelCaller = context.WithCancel(ctx)
					if op.Cctx == 1 {
						cancelCaller()
					}
				}
				p.Send(sctx, wpool.Event{Caller: fmt.Sprintf("job%d", j.id), Fn: func(jctx context.Context) error {
					j.starts = append(j.starts, tick())
					switch j.kind {
					case "gate":
						gateM.Lock()
						for !gateOpen {
							gate.Wait()
						}
						gateM.Unlock()
					case "ctx", "ctxresend":
						done := jctx.Done()
						sel := detsync.NewSelect(1)
					L:
						switch sel.Next() {
						case 0:
							select {
							case <-done:
								sel.Hit()
							default:
								goto L
							}
						}
					}
					if j.kind == "resend" || j.kind == "ctxresend" {
						// a job hands a follow-up job to the pool it runs on ("ctxresend": once the pool is being
						// stopped - that Send must return at once, or Stop, which waits for this job, never returns)
						c := &jobRec{id: len(res.jobs), kind: "noop"}
						res.jobs = append(res.jobs, c)
						c.sendCall = tick()
						p.Send(ctx, wpool.Event{Caller: fmt.Sprintf("job%d", c.id), Fn: func(context.Context) error {
							c.starts = append(c.starts, tick())
							c.ends = append(c.ends, tick())
							return nil
						}})
						c.sendRet = tick()
						c.whileRunning = false // sent from inside the pool at an unknown point of its life: only at-most-once is demanded
					}
					j.ends = append(j.ends, tick())
					return nil
				}})
				cancelCaller()
				j.sendRet = tick()
				j.whileRunning = okBefore && running && !stopCalled
				returnedSends++
				if returnedSends == totalSends {
					// every Send has returned while the gate jobs still blocked their workers
					openGate()
				}
			}
		}
		for _, op := range c.Pre {
			do(op)
		}
		pol.base, pol.on = detsync.Steps(), true
		var wg detsync.WaitGroup
		for ai, script := range c.Actors {
			wg.Add(1)
			script := script
			detsync.GoNamed(fmt.Sprintf("actor%d", ai), func() {
				defer wg.Done()
				for _, op := range script {
					do(op)
				}
			})
		}
		wg.Wait()
		if !gateOpen {
			openGate() // sends of the epilogue are still to come
		}
		detsync.WaitIdle() // nothing else can run and no timer is pending: whatever was accepted has had its chance
		res.idleAt = tick()
		pol.on = false
		for _, op := range c.Post {
			do(op)
		}
	})
	if cnt != nil {
		res.cands = cnt.N
	}
	return res
}

func judgePool(c PoolCase, pr *poolRun) *ev.Result {
	r := &ev.Result{}
	o := pr.out
	switch {
	case o.TimedOut || o.StepLimit:
		// not a verdict (exit 2) - but keep the case, so that it can be looked at
		if b, err := json.Marshal(c); err == nil {
			if d := os.Getenv("VERIF_OUT"); d != "" {
				_ = os.WriteFile(filepath.Join(d, fmt.Sprintf("infra-C16-%s.json", os.Getenv("VERIF_SHARD"))), b, 0o644)
			}
			panic(fmt.Sprintf("INFRA: pool episode did not finish: %+v; case %s", o, b))
		}
		panic(fmt.Sprintf("INFRA: pool episode did not finish: %+v", o))
	case o.Panic != "":
		r.Failf("panic: %s", firstLines(o.Panic, 6))
	case o.Deadlock:
		r.Failf("deadlock: nothing can run while Send/Stop/Run calls are unfinished: %v", o.Waiting)
	}
	if r.Fail != "" {
		return r
	}
	lastStop := 0
	if n := len(pr.stopRets); n > 0 {
		lastStop = pr.stopRets[n-1]
	}
	w := c.Workers
	if w < 1 {
		w = 1
	}
	// generation of a job = the Run that was the last to return before the Send began
	genStart := func(j *jobRec) int {
		g := 0
		for _, rr := range pr.runRets {
			if rr < j.sendCall && rr > g {
				g = rr
			}
		}
		return g
	}
	for _, j := range pr.jobs {
		if len(j.starts) > 1 {
			r.Failf("job %d (%s) was executed %d times", j.id, j.kind, len(j.starts))
			return r
		}
		if j.whileRunning && !c.Lifecyle && j.kind != "ctx" && j.kind != "ctxresend" && j.sendRet < pr.idleAt {
			// accepted while the pool was running, and no Stop was called from then until quiescence.
			// Jobs that wait for their context occupy a worker until Stop: the rule only applies while
			// at least one worker of this generation remains available.
			g := genStart(j)
			ctxJobs := 0
			for _, o := range pr.jobs {
				if (o.kind == "ctx" || o.kind == "ctxresend") && o.sendCall > g && o.sendCall < pr.idleAt {
					ctxJobs++
				}
			}
			stoppedBeforeIdle := false
			for _, sc := range append(append([]int(nil), pr.stopCalls...), pr.cancels...) {
				if sc > j.sendCall && sc < pr.idleAt {
					stoppedBeforeIdle = true // stopped, or its Run context cancelled: queued jobs may be dropped
				}
			}
			if ctxJobs < w && !stoppedBeforeIdle && (len(j.starts) != 1 || len(j.ends) != 1 || j.ends[0] > pr.idleAt) {
				r.Failf("job %d (%s), handed to Send [%d..%d] while the pool was running, was executed %d times by the time the pool went idle (no Stop, no further Send): it is stranded", j.id, j.kind, j.sendCall, j.sendRet, len(j.starts))
				return r
			}
		}
		for _, st := range j.starts {
			if c.Lifecyle {
				// Run/Stop overlap arbitrarily: no-panic, no-deadlock and at-most-once are demanded - and, for
				// EVERY Stop (also one that overlaps another Stop): a job that was in flight when that Stop was
				// called has finished when it returns (jobs of this profile are plain no-ops)
				for _, sp := range pr.stopPairs {
					if st < sp[0] && (len(j.ends) == 0 || j.ends[0] > sp[1]) && j.kind == "noop" {
						r.Failf("a Stop called at %d returned at %d although job %d, started at %d (before that Stop was called), had not finished", sp[0], sp[1], j.id, st)
						return r
					}
				}
				break
			}
			for i, sr := range pr.stopRets {
				// a job that started before Stop was called must have finished when Stop returns;
				// no job may start after a Stop returned (unless the pool was run again)
				// (the pool counts as run again from the moment Run was CALLED after that Stop: Run starts the
				// workers before it returns, and a Send that meets them is accepted - found by the thorough
				// tier at three forced preemptions, where a job of the new generation started before the
				// second Run had returned)
				rerun := false
				for _, rc := range pr.runCalls {
					if rc > sr && rc < st {
						rerun = true
					}
				}
				if st > sr && !rerun {
					r.Failf("job %d started at %d, after Stop had returned at %d", j.id, st, sr)
					return r
				}
				if st < pr.stopCalls[i] && (len(j.ends) == 0 || j.ends[0] > sr) && j.kind != "ctx" && j.kind != "ctxresend" {
					r.Failf("Stop returned at %d although job %d, started at %d, had not finished", sr, j.id, st)
					return r
				}
			}
		}
	}
	_ = lastStop
	return r
}

func firstLines(s string, n int) string {
	out := ""
	for i, l := range splitLines(s) {
		if i >= n {
			break
		}
		out += l + " | "
	}
	return out
}

func splitLines(s string) []string {
	var out []string
	cur := ""
	for _, ch := range s {
		if ch == '\n' {
			out = append(out, cur)
			cur = ""
		} else {
			cur += string(ch)
		}
	}
	return append(out, cur)
}

func execPool(c PoolCase) *ev.Result {
	pr := runPool(c, false)
	r := judgePool(c, pr)
	annotatePool(c, pr, r)
	return r
}

func annotatePool(c PoolCase, pr *poolRun, r *ev.Result) {
	gates := 0
	for _, j := range pr.jobs {
		if j.kind == "gate" {
			gates++
		}
	}
	// with all workers gate-blocked and more sends than channel slots, the deferred path is taken
	w := c.Workers
	if w < 1 {
		w = 1
	}
	if gates >= w && len(pr.jobs) > 3*w {
		r.NonTrivial = true
		r.Class("deferred-path")
	}
	if len(pr.runRets) >= 2 && len(c.Pre) > 1 {
		r.Class("second-generation")
	}
	if c.Lifecyle {
		r.Class("lifecycle")
		r.NonTrivial = r.NonTrivial || len(pr.stopCalls)+len(pr.runRets) >= 2
	}
}

func sends(n int, job string) []POp {
	var s []POp
	for i := 0; i < n; i++ {
		s = append(s, POp{K: "send", Job: job})
	}
	return s
}

// firstGeneration is a sequential prologue: run, park every worker with a job that waits for its
// context, push n no-op jobs behind them (more than the channel holds: the deferred list and its
// flusher are busy), stop, run again.
func firstGeneration(workers, n int) []POp {
	pre := []POp{{K: "run"}}
	pre = append(pre, sends(workers, "ctx")...)
	pre = append(pre, sends(n, "noop")...)
	return append(pre, POp{K: "stop"}, POp{K: "run"})
}

func c16Catalogue() []PoolCase {
	run, stop := []POp{{K: "run"}}, []POp{{K: "stop"}}
	return []PoolCase{
		{Workers: 1, Pre: run, Post: stop, Actors: [][]POp{append(sends(1, "gate"), sends(4, "noop")...)}},
		{Workers: 1, Pre: run, Post: stop, Actors: [][]POp{append(sends(1, "gate"), sends(3, "noop")...), sends(2, "noop")}},
		{Workers: 2, Pre: run, Post: stop, Actors: [][]POp{append(sends(2, "gate"), sends(5, "noop")...), sends(2, "noop")}},
		{Workers: 1, Pre: run, Post: stop, Actors: [][]POp{sends(3, "noop"), sends(3, "noop")}},
		{Workers: 1, Pre: run, Actors: [][]POp{append(sends(1, "gate"), sends(4, "noop")...), stop}},
		{Workers: 1, Pre: run, Actors: [][]POp{sends(2, "noop"), stop}, Post: []POp{{K: "run"}, {K: "send", Job: "noop"}, {K: "stop"}}},
		{Workers: 1, Pre: run, Post: stop, Actors: [][]POp{append(sends(1, "ctx"), sends(2, "noop")...)}},
		{Workers: 1, Lifecyle: true, Actors: [][]POp{{{K: "run"}, {K: "send", Job: "noop"}, {K: "stop"}}, {{K: "stop"}}}},
		{Workers: 1, Lifecyle: true, Actors: [][]POp{{{K: "run"}}, {{K: "send", Job: "noop"}}, {{K: "stop"}}}},
		// callers whose context is already cancelled, or is cancelled as soon as Send has returned
		{Workers: 1, Pre: run, Post: stop, Actors: [][]POp{{{K: "send", Job: "gate"}, {K: "send", Job: "noop", Cctx: 1}, {K: "send", Job: "noop", Cctx: 2}, {K: "send", Job: "noop"}, {K: "send", Job: "noop", Cctx: 1}, {K: "send", Job: "noop", Cctx: 2}}}},
		// jobs that hand follow-up jobs to their own pool, also while it is being stopped; a periodic job
		{Workers: 1, Pre: run, Actors: [][]POp{{{K: "send", Job: "ctxresend"}, {K: "send", Job: "noop"}}, {{K: "stop"}}}},
		{Workers: 2, Pre: run, Post: stop, Actors: [][]POp{{{K: "send", Job: "resend"}, {K: "send", Job: "resend"}, {K: "send", Job: "noop"}}}},
		{Workers: 1, Pre: run, Actors: [][]POp{{{K: "sched"}, {K: "send", Job: "noop"}, {K: "stop"}}, {{K: "send", Job: "noop"}}}},
		// the context given to Run is cancelled by its owner; Stop is called afterwards and must still wait
		{Workers: 1, Pre: run, Actors: [][]POp{{{K: "send", Job: "gate"}, {K: "send", Job: "noop"}, {K: "cancelrun"}, {K: "send", Job: "noop"}, {K: "stop"}}}},
		{Workers: 2, Pre: run, Actors: [][]POp{{{K: "send", Job: "ctx"}, {K: "send", Job: "noop"}, {K: "send", Job: "noop"}}, {{K: "cancelrun"}, {K: "stop"}, {K: "run"}, {K: "send", Job: "noop"}}}, Post: stop},
		// second generation: a first Run/Stop cycle that ended with a busy flusher, then the deferred path again
		// pools whose size is not a power of two, with several jobs deferred at the same time
		{Workers: 3, Pre: run, Post: stop, Actors: [][]POp{append(sends(3, "gate"), sends(11, "noop")...)}},
		{Workers: 1, Pre: firstGeneration(1, 5), Post: stop, Actors: [][]POp{append(sends(1, "gate"), sends(4, "noop")...)}},
		{Workers: 2, Pre: firstGeneration(2, 8), Post: stop, Actors: [][]POp{append(sends(2, "gate"), sends(6, "noop")...)}},
	}
}

func TestC16Enum(t *testing.T) {
	const prop, part = "C16", "enum"
	t.Cleanup(func() { ev.Flush(prop, part) })
	if ev.Replaying() {
		ev.Check(t, prop, part, func(*rapid.T) PoolCase { return PoolCase{} }, execPool)
		return
	}
	shard, n := shardInfo()
	bound := 1
	if v := envInt("VERIF_POOL_BOUND"); v > 0 {
		bound = v
	}
	total := 0
	for _, p := range c16Catalogue() {
		p := p
		runs, ok := EnumBounded(bound, shard, n, func(pre [][2]int) ([]int, bool) {
			c := p
			c.Sched = Schedule{Preempt: pre}
			pr := runPool(c, true)
			r := judgePool(c, pr)
			annotatePool(c, pr, r)
			return pr.cands, ev.Direct(t, prop, part, c, r)
		})
		total += runs
		if !ok {
			return
		}
	}
	ev.Note(prop, fmt.Sprintf("part enum: all schedules with <= %d forced preemptions of %d pool programs (%d runs in this shard of %d)", bound, len(c16Catalogue()), total, n))
}

func genPool(t *rapid.T) PoolCase {
	c := PoolCase{Workers: rapid.IntRange(1, 2).Draw(t, "workers")}
	c.Lifecyle = rapid.IntRange(0, 3).Draw(t, "lifecycle") == 0
	jobKinds := []string{"noop", "noop", "noop", "gate", "gate", "ctx", "resend", "ctxresend"}
	if c.Lifecyle {
		na := rapid.IntRange(2, 3).Draw(t, "actors")
		for a := 0; a < na; a++ {
			var s []POp
			for n := rapid.IntRange(1, 4).Draw(t, "nops"); n > 0; n-- {
				k := rapid.SampledFrom([]string{"run", "stop", "send", "send", "cancelrun"}).Draw(t, "kind")
				op := POp{K: k}
				if k == "send" {
					op.Job = "noop" // gate jobs would make a Stop in the middle of a script wait for the harness itself
				}
				s = append(s, op)
			}
			c.Actors = append(c.Actors, s)
		}
		c.Post = []POp{{K: "stop"}}
	} else if rapid.IntRange(0, 5).Draw(t, "wide") == 0 {
		// a pool of 3, 5, 6 or 7 workers (sizes that are not powers of two): all workers blocked, the
		// channel full, then 3-8 more jobs that have to wait in the deferred list at the same time
		c.Workers = rapid.SampledFrom([]int{3, 5, 6, 7}).Draw(t, "wideWorkers")
		c.Pre = []POp{{K: "run"}}
		c.Actors = append(c.Actors, append(sends(c.Workers, "gate"), sends(2*c.Workers+rapid.IntRange(3, 8).Draw(t, "deferred"), "noop")...))
		if rapid.Bool().Draw(t, "secondSender") {
			c.Actors = append(c.Actors, sends(rapid.IntRange(1, 4).Draw(t, "nsends2"), "noop"))
		}
		c.Post = []POp{{K: "stop"}}
		if rapid.Bool().Draw(t, "wideTape") {
			c.Sched = Schedule{Tape: rapid.SliceOfN(rapid.Byte(), 50, 400).Draw(t, "tape"), Threshold: rapid.SampledFrom([]int{5, 13, 26}).Draw(t, "threshold")}
		}
		return c
	} else if rapid.IntRange(0, 2).Draw(t, "burst") == 0 {
		// bursts of no-op jobs against one worker: the channel fills and drains while Sends are still
		// arriving, so the deferred path and the flusher's exit are exercised dynamically
		c.Workers = 1
		c.Pre = []POp{{K: "run"}}
		for a, ns := 0, rapid.IntRange(1, 3).Draw(t, "senders"); a < ns; a++ {
			c.Actors = append(c.Actors, sends(rapid.IntRange(2, 6).Draw(t, "nsends"), "noop"))
		}
		c.Post = []POp{{K: "stop"}}
		th := rapid.SampledFrom([]int{26, 51, 77, 128}).Draw(t, "threshold")
		c.Sched = Schedule{Tape: rapid.SliceOfN(rapid.Byte(), 100, 800).Draw(t, "tape"), Threshold: th}
		return c
	} else {
		c.Pre = []POp{{K: "run"}}
		ns := rapid.IntRange(1, 3).Draw(t, "senders")
		for a := 0; a < ns; a++ {
			var s []POp
			for n := rapid.IntRange(1, 6).Draw(t, "nsends"); n > 0; n-- {
				s = append(s, POp{K: "send", Job: rapid.SampledFrom(jobKinds).Draw(t, "job"), Cctx: rapid.SampledFrom([]int{0, 0, 0, 0, 1, 2}).Draw(t, "cctx")})
			}
			c.Actors = append(c.Actors, s)
		}
		if rapid.IntRange(0, 5).Draw(t, "cancelRun") == 0 {
			c.Actors = append(c.Actors, []POp{{K: "cancelrun"}, {K: "stop"}})
		} else if rapid.IntRange(0, 3).Draw(t, "concurrentStop") == 0 {
			c.Actors = append(c.Actors, []POp{{K: "stop"}})
		} else {
			c.Post = []POp{{K: "stop"}}
			if rapid.IntRange(0, 3).Draw(t, "again") == 0 {
				c.Post = append(c.Post, POp{K: "run"}, POp{K: "send", Job: "noop"}, POp{K: "stop"})
			}
		}
	}
	if !c.Lifecyle && rapid.IntRange(0, 3).Draw(t, "secondGeneration") == 0 {
		c.Pre = firstGeneration(rapid.IntRange(0, c.Workers).Draw(t, "parked"), rapid.IntRange(0, 3*c.Workers+3).Draw(t, "gen1sends"))
	}
	// the stranded-job window needs three or more specific decisions: favour random-walk tapes
	if rapid.IntRange(0, 3).Draw(t, "tape") > 0 {
		th := rapid.SampledFrom([]int{5, 13, 26, 77}).Draw(t, "threshold")
		c.Sched = Schedule{Tape: rapid.SliceOfN(rapid.Byte(), 50, 600).Draw(t, "tape"), Threshold: th}
	} else {
		c.Sched = genSchedule(t, 200)
	}
	return c
}

func TestC16Rand(t *testing.T) { ev.Check(t, "C16", "rand", genPool, execPool) }
