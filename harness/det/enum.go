package det

// EnumBounded explores every schedule with at most `bound` forced preemptions (in increasing
// step order) of a program: run(sched) executes one schedule and returns the number of
// candidates at every scheduling point of the (relative) concurrent phase, and whether to go on.
// visit is called once per schedule. shard/nshards split the leaf level.
func EnumBounded(bound int, shard, nshards int, run func(pre [][2]int) (cands []int, ok bool)) (runs int, completed bool) {
	counter := 0
	var rec func(pre [][2]int, depth int) bool
	rec = func(pre [][2]int, depth int) bool {
		last := -1
		if len(pre) > 0 {
			last = pre[len(pre)-1][0]
		}
		// interior nodes are always executed (their candidate lists drive the enumeration);
		// leaves are sharded
		isLeafLevel := depth == bound
		if isLeafLevel {
			counter++
			if counter%nshards != shard {
				return true
			}
		}
		cands, ok := run(pre)
		runs++
		if !ok {
			return false
		}
		if depth == bound {
			return true
		}
		for k := last + 1; k < len(cands); k++ {
			for c := 0; c < cands[k]-1; c++ {
				next := append(append([][2]int(nil), pre...), [2]int{k, c})
				if !rec(next, depth+1) {
					return false
				}
			}
		}
		return true
	}
	ok := rec(nil, 0)
	return runs, ok
}
