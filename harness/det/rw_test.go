package det

import (
	"bytes"
	"errors"
	"fmt"
	"io"
	"testing"

	"pgregory.net/rapid"

	"github.com/glebziz/fs_db/internal/utils/async"
	"github.com/glebziz/fs_db/internal/verifh/detsync"
	"github.com/glebziz/fs_db/internal/verifh/ev"
	"github.com/glebziz/fs_db/internal/verifh/model"
)

// Component-level part of C12: the asynchronous read-writer alone, wired exactly as
// pkg/inline/db/create.go wires it (consumer goroutine = the storing side reading with a 32 KiB
// buffer, SetError on failure), under the owned scheduler. No database: a schedule costs
// microseconds, so all schedules with up to 3 forced preemptions are enumerated.

type RWCase struct {
	Sizes  []int    `json:"sizes"`
	FailAt int      `json:"fail_at,omitempty"` // the consumer fails after reading this many bytes (0 = never)
	Sched  Schedule `json:"sched"`
}

var errStore = errors.New("injected store failure")

type rwOutcome struct {
	out      detsync.Outcome
	closeErr error
	writeErr error
	consumed []byte
	failed   bool
	want     []byte
	cands    []int
}

func runRW(c RWCase, count bool) rwOutcome {
	total := 0
	for _, n := range c.Sizes {
		if n > 0 {
			total += n
		}
	}
	want := model.Bytes(model.Val{Len: total, Seed: 7})
	res := rwOutcome{want: want}
	var pol detsync.Policy = c.Sched.Policy()
	var cnt *detsync.Counting
	if count {
		cnt = &detsync.Counting{Inner: pol}
		pol = cnt
	}
	res.out = detsync.Run(detsync.Config{Policy: pol}, func() {
		rw := async.NewReadWriter()
		rw.Add(1)
		detsync.GoNamed("storing", func() {
			defer rw.Done()
			var buf bytes.Buffer
			p := make([]byte, 32*1024)
			for {
				n, err := rw.Read(p)
				buf.Write(p[:n])
				if c.FailAt > 0 && buf.Len() >= c.FailAt {
					rw.SetError(errStore)
					res.failed = true
					break
				}
				if err == io.EOF {
					break
				}
				if err != nil {
					rw.SetError(err)
					break
				}
			}
			res.consumed = buf.Bytes()
		})
		b := want
		for _, n := range c.Sizes {
			if n < 0 {
				n = 0
			}
			q := append([]byte(nil), b[:n]...) // the caller's buffer, reused after Write has returned
			_, err := rw.Write(q)
			for i := range q {
				q[i] ^= 0xA5
			}
			if err != nil {
				res.writeErr = err
				break
			}
			b = b[n:]
		}
		res.closeErr = rw.Close()
	})
	if cnt != nil {
		res.cands = cnt.N
	}
	return res
}

func judgeRW(c RWCase, o rwOutcome) *ev.Result {
	r := &ev.Result{}
	switch {
	case o.out.TimedOut || o.out.StepLimit:
		panic(fmt.Sprintf("INFRA: read-writer episode did not finish: %+v", o.out))
	case o.out.Panic != "":
		r.Failf("panic: %s", o.out.Panic)
	case o.out.Deadlock:
		r.Failf("writes %v: Close never returns under this schedule (nothing can run): %v", c.Sizes, o.out.Waiting)
	case c.FailAt == 0 && (o.closeErr != nil || o.writeErr != nil):
		r.Failf("writes %v: unexpected error, Write: %v, Close: %v", c.Sizes, o.writeErr, o.closeErr)
	case c.FailAt == 0 && !bytes.Equal(o.consumed, o.want):
		r.Failf("writes %v: Close returned nil but the storing side received %d bytes, the concatenation has %d (prefix equal: %v)",
			c.Sizes, len(o.consumed), len(o.want), bytes.HasPrefix(o.want, o.consumed))
	case !o.failed && c.FailAt > 0 && o.closeErr == nil && !bytes.Equal(o.consumed, o.want):
		r.Failf("writes %v: Close returned nil but the storing side received %d bytes, the concatenation has %d", c.Sizes, len(o.consumed), len(o.want))
	case o.failed && o.closeErr == nil && o.writeErr == nil:
		r.Failf("writes %v: the storing side failed after %d bytes but neither Write nor Close reported an error", c.Sizes, c.FailAt)
	case c.FailAt > 0 && (o.closeErr != nil && !errors.Is(o.closeErr, errStore) || o.writeErr != nil && !errors.Is(o.writeErr, errStore)):
		r.Failf("writes %v: error of the wrong class, Write: %v, Close: %v", c.Sizes, o.writeErr, o.closeErr)
	}
	for _, n := range c.Sizes {
		if n == 0 {
			r.NonTrivial = true
		}
	}
	if len(c.Sched.Preempt) > 0 || len(c.Sched.Tape) > 0 {
		r.NonTrivial = true
	}
	r.Class(fmt.Sprintf("preemptions=%d", len(c.Sched.Preempt)))
	return r
}

func execRW(c RWCase) *ev.Result { return judgeRW(c, runRW(c, false)) }

func TestC12RWEnum(t *testing.T) {
	const prop, part = "C12", "rwenum"
	t.Cleanup(func() { ev.Flush(prop, part) })
	if ev.Replaying() {
		ev.Check(t, prop, part, func(*rapid.T) RWCase { return RWCase{} }, execRW)
		return
	}
	shard, n := shardInfo()
	bound := 2
	if testing.Short() {
		bound = 1
	}
	if v := envInt("VERIF_RW_BOUND"); v > 0 {
		bound = v
	}
	progs := []RWCase{
		{Sizes: []int{3, 0, 3}}, {Sizes: nil}, {Sizes: []int{0, 5}}, {Sizes: []int{5, 0}}, {Sizes: []int{0}}, {Sizes: []int{1, 1}},
		{Sizes: []int{40000, 0, 40000}}, {Sizes: []int{3, 3}, FailAt: 1}, {Sizes: []int{0, 3}, FailAt: 2},
		// a writer megabytes ahead of a storing side that fails (or does not)
		{Sizes: []int{3 << 20, 1}, FailAt: 512 << 10}, {Sizes: []int{1 << 20, 1 << 20, 1}, FailAt: 40000}, {Sizes: []int{2 << 20, 1}},
	}
	total := 0
	for _, p := range progs {
		p := p
		runs, ok := EnumBounded(bound, shard, n, func(pre [][2]int) ([]int, bool) {
			c := p
			c.Sched = Schedule{Preempt: pre}
			o := runRW(c, true)
			return o.cands, ev.Direct(t, prop, part, c, judgeRW(c, o))
		})
		total += runs
		if !ok {
			return
		}
	}
	ev.Note(prop, fmt.Sprintf("part rwenum: all schedules with <= %d forced preemptions of %d read-writer programs (%d runs in this shard of %d)", bound, len(progs), total, n))
}

func genRW(t *rapid.T) RWCase {
	c := RWCase{}
	for n := rapid.IntRange(0, 8).Draw(t, "nwrites"); n > 0; n-- {
		c.Sizes = append(c.Sizes, rapid.SampledFrom([]int{0, 0, 1, 3, 2048, 32768, 40000}).Draw(t, "size"))
	}
	if rapid.IntRange(0, 9).Draw(t, "huge") == 0 && len(c.Sizes) > 0 {
		c.Sizes[rapid.IntRange(0, len(c.Sizes)-1).Draw(t, "hugeAt")] = rapid.SampledFrom([]int{1 << 20, 1<<20 + 1, 3 << 20}).Draw(t, "hugeSize")
	}
	if rapid.IntRange(0, 4).Draw(t, "fails") == 0 {
		c.FailAt = rapid.SampledFrom([]int{1, 3, 2048, 40000, 512 << 10}).Draw(t, "failAt")
	}
	c.Sched = genSchedule(t, 120)
	return c
}

func TestC12RWRand(t *testing.T) { ev.Check(t, "C12", "rwrand", genRW, execRW) }
