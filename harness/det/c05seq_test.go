package det

import (
	"fmt"
	"testing"

	"pgregory.net/rapid"

	"github.com/glebziz/fs_db/internal/model/sequence"
	"github.com/glebziz/fs_db/internal/verifh/detsync"
	"github.com/glebziz/fs_db/internal/verifh/ev"
)

// ---- C05: the process-wide sequence counter under the owned scheduler ----------------------------
//
// "Later writes keep winning ... whatever other database instances the same process has opened before
// or meanwhile" rests on one fact: once Load has called sequence.Set(M) with the highest persisted
// number M, every number handed out afterwards is above M - also while other instances of the same
// process draw numbers (Next) or open (Set) concurrently.

// SeqCase: actors of Set(base+delta) / Next() calls, all interleavings with a bounded number of
// forced preemptions.
type SeqCase struct {
	Actors [][]SeqOp `json:"actors"`
	Sched  Schedule  `json:"sched"`
}

type SeqOp struct {
	K     string `json:"k"` // set | next
	Delta int    `json:"delta,omitempty"`
}

type seqEvent struct {
	actor      int
	k          string
	arg        uint64 // set: the value
	res        uint64 // next: the result
	call, done int
}

func runSeq(c SeqCase, count bool) (out detsync.Outcome, evs []seqEvent, cands []int, base uint64) {
	var inner detsync.Policy = c.Sched.Policy()
	var cnt *detsync.Counting
	if count {
		cnt = &detsync.Counting{Inner: inner}
		inner = cnt
	}
	pol := &phasePolicy{inner: inner}
	clock := 0
	tick := func() int { clock++; return clock }
	out = detsync.Run(detsync.Config{Policy: pol}, func() {
		// the counter is process-global and only grows: every episode works relative to its current value
		base = uint64(sequence.Next())
		pol.base, pol.on = detsync.Steps(), true
		var wg detsync.WaitGroup
		for ai, script := range c.Actors {
			wg.Add(1)
			ai, script := ai, script
			detsync.GoNamed(fmt.Sprintf("actor%d", ai), func() {
				defer wg.Done()
				for _, op := range script {
					e := seqEvent{actor: ai, k: op.K, call: tick()}
					if op.K == "set" {
						e.arg = base + uint64(op.Delta)
						sequence.Set(sequence.Seq(e.arg))
					} else {
						e.res = uint64(sequence.Next())
					}
					e.done = tick()
					evs = append(evs, e)
				}
			})
		}
		wg.Wait()
		pol.on = false
		evs = append(evs, seqEvent{actor: -1, k: "next", call: tick(), res: uint64(sequence.Next()), done: tick()})
	})
	if cnt != nil {
		cands = cnt.N
	}
	return
}

func judgeSeq(c SeqCase, out detsync.Outcome, evs []seqEvent) *ev.Result {
	r := &ev.Result{}
	switch {
	case out.TimedOut || out.StepLimit:
		panic(fmt.Sprintf("INFRA: sequence episode did not finish: %+v", out))
	case out.Panic != "":
		r.Failf("panic: %s", firstLines(out.Panic, 6))
		return r
	case out.Deadlock:
		r.Failf("deadlock: %v", out.Waiting)
		return r
	}
	seen := map[uint64]bool{}
	for _, e := range evs {
		if e.k != "next" {
			continue
		}
		if seen[e.res] {
			r.Failf("Next handed out %d twice", e.res)
			return r
		}
		seen[e.res] = true
		for _, s := range evs {
			// a number drawn after Set(M) had returned must be above M
			if s.k == "set" && s.done < e.call && e.res <= s.arg {
				r.Failf("Set(%d) had returned (actor %d, at %d) when actor %d called Next (at %d), which returned %d: a version written now loses against the persisted ones at the next open", s.arg, s.actor, s.done, e.actor, e.call, e.res)
				return r
			}
			// numbers grow along real time
			if s.k == "next" && s.done < e.call && e.res <= s.res {
				r.Failf("Next returned %d after an earlier call had returned %d", e.res, s.res)
				return r
			}
		}
	}
	sets, nexts := 0, 0
	for _, e := range evs {
		if e.k == "set" {
			sets++
		} else {
			nexts++
		}
	}
	r.NonTrivial = sets > 0 && nexts > 1 && len(c.Actors) > 1
	return r
}

func execSeq(c SeqCase) *ev.Result {
	out, evs, _, _ := runSeq(c, false)
	return judgeSeq(c, out, evs)
}

func c05SeqCatalogue() []SeqCase {
	set := func(d int) SeqOp { return SeqOp{K: "set", Delta: d} }
	next := SeqOp{K: "next"}
	return []SeqCase{
		{Actors: [][]SeqOp{{set(1000), next}, {next, next}}},
		{Actors: [][]SeqOp{{set(1000), next}, {set(500), next}}},
		{Actors: [][]SeqOp{{set(1000), next}, {set(2000), next}, {next}}},
		{Actors: [][]SeqOp{{next, set(3), next}, {next, next, next, next}}},
		{Actors: [][]SeqOp{{set(1), next}, {next}, {next}}},
	}
}

func TestC05SeqEnum(t *testing.T) {
	const prop, part = "C05", "seqenum"
	t.Cleanup(func() { ev.Flush(prop, part) })
	if ev.Replaying() {
		ev.Check(t, prop, part, func(*rapid.T) SeqCase { return SeqCase{} }, execSeq)
		return
	}
	shard, n := shardInfo()
	bound := 3
	if v := envInt("VERIF_SEQ_BOUND"); v > 0 {
		bound = v
	}
	total := 0
	for _, p := range c05SeqCatalogue() {
		p := p
		runs, ok := EnumBounded(bound, shard, n, func(pre [][2]int) ([]int, bool) {
			c := p
			c.Sched = Schedule{Preempt: pre}
			out, evs, cands, _ := runSeq(c, true)
			return cands, ev.Direct(t, prop, part, c, judgeSeq(c, out, evs))
		})
		total += runs
		if !ok {
			return
		}
	}
	ev.Note(prop, fmt.Sprintf("part seqenum: all schedules with <= %d forced preemptions of %d programs of concurrent sequence.Set / sequence.Next calls (%d runs in this shard of %d)", bound, len(c05SeqCatalogue()), total, n))
}

func genSeq(t *rapid.T) SeqCase {
	var c SeqCase
	for a, na := 0, rapid.IntRange(2, 4).Draw(t, "actors"); a < na; a++ {
		var s []SeqOp
		for n := rapid.IntRange(1, 4).Draw(t, "nops"); n > 0; n-- {
			if rapid.IntRange(0, 2).Draw(t, "isSet") == 0 {
				s = append(s, SeqOp{K: "set", Delta: rapid.SampledFrom([]int{0, 1, 2, 3, 10, 1000}).Draw(t, "delta")})
			} else {
				s = append(s, SeqOp{K: "next"})
			}
		}
		c.Actors = append(c.Actors, s)
	}
	th := rapid.SampledFrom([]int{26, 77, 128}).Draw(t, "threshold")
	c.Sched = Schedule{Tape: rapid.SliceOfN(rapid.Byte(), 20, 200).Draw(t, "tape"), Threshold: th}
	return c
}

func TestC05SeqRand(t *testing.T) { ev.Check(t, "C05", "seqrand", genSeq, execSeq) }
