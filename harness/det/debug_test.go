package det

import (
	"fmt"
	"os"
	"testing"
)

// TestDebugEnum prints, for one catalogue program, every single-preemption schedule whose history
// contains a failed read (development aid; not part of any check).
func TestDebugPairs(t *testing.T) {
	if os.Getenv("VERIF_DEBUG") == "" {
		t.Skip()
	}
	var prog Case
	for _, p := range c06Catalogue() {
		if p.Deep {
			prog = p
		}
	}
	prog.Light = true
	n, inter, late := 0, 0, 0
	runs, _ := EnumBounded(2, 0, 1, func(pre [][2]int) ([]int, bool) {
		c := prog
		c.Sched = Schedule{Preempt: pre}
		var cands []int
		CountCands = &cands
		CountWorkingOnly = true
		run := Execute(c, false)
		CountCands = nil
		CountWorkingOnly = false
		var hs []string
		tget, oget := "", ""
		for _, h := range run.Hist {
			if h.Client == 1 && h.K == "get" {
				tget = fmt.Sprint(h.Got)
			}
			if h.Client == 2 && h.K == "get" {
				oget = string(h.Err)
			}
			hs = append(hs, h.String())
		}
		var wset, tset, tgetOp, ogetOp HOp
		for _, h := range run.Hist {
			switch {
			case h.Client == 0 && h.K == "set":
				wset = h
			case h.Client == 1 && h.K == "set":
				tset = h
			case h.Client == 1 && h.K == "get":
				tgetOp = h
			case h.Client == 2 && h.K == "get":
				ogetOp = h
			}
		}
		interesting := wset.Call < tset.Call && wset.Ret > tset.Ret
		if interesting {
			inter++
		}
		_ = tgetOp
		_ = ogetOp
		interesting = interesting && ogetOp.Call > tset.Ret && ogetOp.Ret < tgetOp.Call
		if interesting {
			late++
		}
		if interesting && n < 4 {
			n++
			fmt.Println(pre, "T.get =", tget, "O.get =", oget)
			for _, h := range hs {
				fmt.Println("    ", h)
			}
		}
		return cands, true
	})
	fmt.Println("runs", runs, "with T.set inside W.set:", inter, "and T.get after W.set returned:", late)
}

func TestDebugPair2(t *testing.T) {
	if os.Getenv("VERIF_DEBUG") == "" {
		t.Skip()
	}
	var prog Case
	for _, p := range c06Catalogue() {
		if p.Deep {
			prog = p
		}
	}
	prog.Light = true
	k1 := 19
	for k2 := k1 + 1; k2 < k1+45; k2++ {
		for c := 0; c < 2; c++ {
			cs := prog
			cs.Sched = Schedule{Preempt: [][2]int{{k1, 0}, {k2, c}}}
			run := Execute(cs, false)
			s := ""
			for _, h := range run.Hist {
				if h.Client >= 0 {
					s += fmt.Sprintf(" | c%d %s[%d..%d]", h.Client, h.K, h.Call, h.Ret)
				}
			}
			fmt.Println(k2, c, s)
		}
	}
}

func TestDebugEnum(t *testing.T) {
	if os.Getenv("VERIF_DEBUG") == "" {
		t.Skip()
	}
	prog := c08Catalogue()[3]
	var cands []int
	CountCands = &cands
	run := Execute(prog, false)
	CountCands = nil
	fmt.Println("steps", len(cands), "conc", run.ConcFrom, run.ConcTo)
	for k := 0; k < len(cands); k++ {
		for c := 0; c < cands[k]-1; c++ {
			cs := prog
			cs.Sched = Schedule{Preempt: [][2]int{{k, c}}}
			run := Execute(cs, false)
			for _, h := range run.Hist {
				if h.K == "get" && h.Err != "ok" && h.Client >= 0 || os.Getenv("VERIF_DEBUG") == "all" && h.Client >= 0 {
					fmt.Println(k, c, h)
				}
			}
		}
	}
}

// TestDebugFindKnown prints the single preemptions under which the Begin-vs-collector catalogue
// program shows a failed snapshot read (development aid for refreshing the known-finding replay).
func TestDebugFindKnown(t *testing.T) {
	if os.Getenv("VERIF_DEBUG") == "" {
		t.Skip()
	}
	prog := c08Catalogue()[3]
	var cands []int
	CountCands = &cands
	Execute(prog, false)
	CountCands = nil
	for k := 0; k < len(cands); k++ {
		for c := 0; c < cands[k]-1; c++ {
			cs := prog
			cs.Sched = Schedule{Preempt: [][2]int{{k, c}}}
			run := Execute(cs, false)
			for _, h := range run.Hist {
				if h.K == "get" && h.Slot == 1 && h.Err != "ok" {
					fmt.Println("FOUND", k, c, h)
				}
			}
		}
	}
}
