package det

import (
	"fmt"
	"os"
	"testing"
)

// TestDebugEnum prints, for one catalogue program, every single-preemption schedule whose history
// contains a failed read (development aid; not part of any check).
func TestDebugEnum(t *testing.T) {
	if os.Getenv("VERIF_DEBUG") == "" {
		t.Skip()
	}
	prog := c08Catalogue()[3]
	var cands []int
	CountCands = &cands
	run := Execute(prog, false)
	CountCands = nil
	fmt.Println("steps", len(cands), "conc", run.ConcFrom, run.ConcTo)
	for k := 0; k < len(cands); k++ {
		for c := 0; c < cands[k]-1; c++ {
			cs := prog
			cs.Sched = Schedule{Preempt: [][2]int{{k, c}}}
			run := Execute(cs, false)
			for _, h := range run.Hist {
				if h.K == "get" && h.Err != "ok" && h.Client >= 0 || os.Getenv("VERIF_DEBUG") == "all" && h.Client >= 0 {
					fmt.Println(k, c, h)
				}
			}
		}
	}
}
