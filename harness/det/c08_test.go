package det

import (
	"fmt"
	"testing"

	"pgregory.net/rapid"

	"github.com/glebziz/fs_db/internal/verifh/ev"
)

// ---- C08: snapshot readers against multi-key committers, autocommit writers, Begins and GC ------

func reader(slot, lvl, nkeys int, reread bool) []COp {
	s := []COp{{K: "begin", Slot: slot, Lvl: lvl}}
	for k := 0; k < nkeys; k++ {
		s = append(s, COp{K: "get", Slot: slot, Key: k})
	}
	if reread {
		for k := 0; k < nkeys; k++ {
			s = append(s, COp{K: "get", Slot: slot, Key: k})
		}
	}
	s = append(s, COp{K: "keys", Slot: slot})
	return s
}

func c08Catalogue() []Case {
	var out []Case
	// Begin racing with a two-key commit
	for _, lv := range []int{2, 3} {
		out = append(out, Case{Prof: "c08", Keys: []string{"x", "y"}, Epilogue: true, Note: fmt.Sprintf("reader level %d vs 2-key RC commit", lv),
			Prologue: []COp{{K: "set", Key: 0, Len: 1}, {K: "set", Key: 1, Len: 1}, {K: "begin", Slot: 1, Lvl: 1}, {K: "set", Slot: 1, Key: 0, Len: 2}, {K: "set", Slot: 1, Key: 1, Len: 2}},
			Clients:  [][]COp{{{K: "commit", Slot: 1}}, reader(2, lv, 2, false)}})
	}
	// three keys, snapshot-level committer
	out = append(out, Case{Prof: "c08", Keys: []string{"x", "y", "z"}, Epilogue: true, Note: "reader vs 3-key RR commit",
		Prologue: []COp{{K: "begin", Slot: 1, Lvl: 2}, {K: "set", Slot: 1, Key: 0, Len: 2}, {K: "set", Slot: 1, Key: 1, Len: 2}, {K: "del", Slot: 1, Key: 2}},
		Clients:  [][]COp{{{K: "commit", Slot: 1}}, reader(2, 2, 3, false)}})
	// Begin racing with GC after an overwrite: the snapshot must keep what it needs
	out = append(out, Case{Prof: "c08", Keys: []string{"x"}, Epilogue: true, Note: "begin vs overwrite vs gc",
		Prologue: []COp{{K: "set", Key: 0, Len: 1}},
		Clients:  [][]COp{reader(1, 2, 1, true), {{K: "set", Key: 0, Len: 2}}, {{K: "gc"}}}})
	// a snapshot reader that begins and re-reads while one autocommit writer overwrites the key
	out = append(out, Case{Prof: "c08", Keys: []string{"x"}, Epilogue: true, Deep: true, Note: "begin + read + re-read || autocommit overwrite",
		Prologue: []COp{{K: "set", Key: 0, Len: 1}},
		Clients:  [][]COp{reader(1, 2, 1, true), {{K: "set", Key: 0, Len: 2}}}})
	// open reader re-reading while a writer overwrites and GC runs
	out = append(out, Case{Prof: "c08", Keys: []string{"x"}, Epilogue: true, Note: "stable re-reads vs overwrite + gc",
		Prologue: []COp{{K: "set", Key: 0, Len: 1}, {K: "begin", Slot: 1, Lvl: 3}, {K: "get", Slot: 1, Key: 0}},
		Clients:  [][]COp{{{K: "get", Slot: 1, Key: 0}, {K: "get", Slot: 1, Key: 0}, {K: "keys", Slot: 1}}, {{K: "set", Key: 0, Len: 2}, {K: "set", Key: 0, Len: 3}}, {{K: "gc"}, {K: "gc"}}}})
	// Begin racing with Begin and GC
	out = append(out, Case{Prof: "c08", Keys: []string{"x"}, Epilogue: true, Note: "begin vs begin vs overwrite vs gc",
		Prologue: []COp{{K: "set", Key: 0, Len: 1}},
		Clients:  [][]COp{reader(1, 2, 1, false), reader(2, 3, 1, false), {{K: "set", Key: 0, Len: 2}, {K: "gc"}}}})
	// a commit of 300 keys against a snapshot reader that begins meanwhile: all of the commit or none of it
	// (light backend only; every single forced preemption of the concurrent phase)
	// (no epilogue: reading 300 keys back by every actor would make the history longer than the search handles)
	wide := Case{Prof: "c08", Wide: true, Note: "reader vs a commit of 300 keys",
		Prologue: []COp{{K: "begin", Slot: 1, Lvl: 1}}}
	for i := 0; i < 300; i++ {
		wide.Keys = append(wide.Keys, fmt.Sprintf("k%03d", i))
		wide.Prologue = append(wide.Prologue, COp{K: "set", Slot: 1, Key: i, Len: 1})
	}
	wide.Clients = [][]COp{{{K: "commit", Slot: 1}}, {{K: "begin", Slot: 2, Lvl: 2}, {K: "keys", Slot: 2}, {K: "get", Slot: 2, Key: 0}, {K: "get", Slot: 2, Key: 299}, {K: "keys", Slot: 2}, {K: "rollback", Slot: 2}, {K: "keys"}}}
	out = append(out, wide)
	return out
}

func TestC08Enum(t *testing.T) {
	const prop, part = "C08", "enum"
	t.Cleanup(func() { ev.Flush(prop, part) })
	if ev.Replaying() {
		ev.Check(t, prop, part, func(*rapid.T) Case { return Case{} }, execJudge)
		return
	}
	shard, n := shardInfo()
	counter := 0
	for _, prog := range c08Catalogue() {
		if prog.Wide {
			continue // hundreds of keys: on the light backend only (part lenum)
		}
		if !enumerateSingle(t, prop, part, prog, shard, n, &counter) {
			return
		}
	}
	ev.Note(prop, fmt.Sprintf("part enum: every single forced preemption of the concurrent phase of %d catalogue programs (%d schedules, sharded %d ways)", len(c08Catalogue()), counter, n))
}

func genC08(t *rapid.T) Case {
	c := Case{Prof: "c08", Epilogue: true}
	nk := rapid.IntRange(1, 3).Draw(t, "nkeys")
	c.Keys = []string{"x", "y", "z"}[:nk]
	for k := 0; k < nk; k++ {
		if rapid.IntRange(0, 3).Draw(t, "init") > 0 {
			c.Prologue = append(c.Prologue, COp{K: "set", Key: k, Len: 1})
		}
	}
	slot := 1
	ncommit := rapid.IntRange(0, 2).Draw(t, "committers")
	for i := 0; i < ncommit; i++ {
		c.Prologue = append(c.Prologue, COp{K: "begin", Slot: slot, Lvl: rapid.SampledFrom([]int{1, 1, 2, 3, 0}).Draw(t, "clvl")})
		nw := rapid.IntRange(1, nk).Draw(t, "cwrites")
		start := rapid.IntRange(0, nk-1).Draw(t, "cstart")
		for j := 0; j < nw; j++ {
			k := "set"
			if rapid.IntRange(0, 5).Draw(t, "cdel") == 0 {
				k = "del"
			}
			c.Prologue = append(c.Prologue, COp{K: k, Slot: slot, Key: (start + j) % nk, Len: 2 + i})
		}
		c.Clients = append(c.Clients, []COp{{K: "commit", Slot: slot}})
		slot++
	}
	nread := rapid.IntRange(1, 2).Draw(t, "readers")
	for i := 0; i < nread; i++ {
		c.Clients = append(c.Clients, reader(slot, rapid.SampledFrom([]int{2, 3}).Draw(t, "rlvl"), nk, rapid.Bool().Draw(t, "reread")))
		slot++
	}
	if rapid.IntRange(0, 1).Draw(t, "autoWriter") == 0 {
		var s []COp
		for n := rapid.IntRange(1, 2).Draw(t, "awrites"); n > 0; n-- {
			s = append(s, COp{K: "set", Key: rapid.IntRange(0, nk-1).Draw(t, "akey"), Len: 5})
		}
		c.Clients = append(c.Clients, s)
	}
	if rapid.IntRange(0, 1).Draw(t, "gcActor") == 0 {
		c.Clients = append(c.Clients, []COp{{K: "gc"}})
	}
	c.Sched = genSchedule(t, 250)
	return c
}

func TestC08Rand(t *testing.T) { ev.Check(t, "C08", "rand", genC08, execJudge) }
