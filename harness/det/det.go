// Package det is engine E4: small concurrent client programs run against the real fs_db code
// (rewritten to use detsync) under a schedule that is part of the generated case.
package det

import (
	"bytes"
	"context"
	"crypto/sha256"
	"fmt"
	"io"
	"sort"
	"strconv"
	"strings"
	"syscall"

	"github.com/glebziz/fs_db"
	fsmodel "github.com/glebziz/fs_db/internal/model"
	"github.com/glebziz/fs_db/internal/verifh/detsync"
	"github.com/glebziz/fs_db/internal/verifh/ev"
	"github.com/glebziz/fs_db/internal/verifh/model"
	"github.com/glebziz/fs_db/internal/verifh/seq"
	"github.com/glebziz/fs_db/internal/verifhook"
)

// COp is one operation of a client script.
type COp struct {
	K    string `json:"k"`              // begin set del get keys commit rollback gc
	Slot int    `json:"slot,omitempty"` // 0 = autocommit, > 0 = transaction slot
	Lvl  int    `json:"lvl,omitempty"`
	Key  int    `json:"key,omitempty"`
	Len  int    `json:"len,omitempty"`
	// create: sizes of the Write calls (the content is their concatenation); Enospc > 0 makes every
	// content-file write fail with ENOSPC once that many bytes were written (storing fails)
	Sizes  []int `json:"sizes,omitempty"`
	Enospc int   `json:"enospc,omitempty"`
}

// Schedule is the generated schedule: forced preemptions and/or a random-walk tape.
type Schedule struct {
	Preempt   [][2]int `json:"preempt,omitempty"` // (scheduling point, choice)
	Tape      []byte   `json:"tape,omitempty"`
	Threshold int      `json:"threshold,omitempty"`
}

// phasePolicy applies the generated schedule only to the concurrent phase of an episode: before it
// starts (open, prologue) the default policy runs, and step numbers are relative to its start.
type phasePolicy struct {
	inner detsync.Policy
	base  int
	on    bool
}

func (p *phasePolicy) Choose(step int, cands []detsync.Choice, cur int) int {
	if !p.on {
		return detsync.Default{}.Choose(step, cands, cur)
	}
	return p.inner.Choose(step-p.base, cands, cur)
}

func (p *phasePolicy) Order(step, n int) []int {
	if !p.on {
		return detsync.Default{}.Order(step, n)
	}
	return p.inner.Order(step-p.base, n)
}

func (s Schedule) Policy() detsync.Policy {
	if len(s.Tape) > 0 {
		th := s.Threshold
		if th <= 0 {
			th = 26
		}
		return &detsync.Tape{B: s.Tape, Threshold: byte(th)}
	}
	at := map[int]int{}
	for _, p := range s.Preempt {
		at[p[0]] = p[1]
	}
	return detsync.Preempt{At: at}
}

// Case is a concurrent program plus its schedule.
type Case struct {
	Prof     string   `json:"prof"`
	Keys     []string `json:"keys"`
	Prologue []COp    `json:"prologue,omitempty"` // executed sequentially before the clients start
	Clients  [][]COp  `json:"clients"`
	Epilogue bool     `json:"epilogue,omitempty"` // afterwards: open transactions read every key, are ended, then an autocommit read of every key
	Sched    Schedule `json:"sched"`
	// Light: run on the light backend (same use cases and pool, in-memory key-value provider instead of Badger)
	Light bool `json:"light,omitempty"`
	// DirMax (light backend only): the directory limit the dir use case is built with (default 100; the
	// assembled inline database clamps its limit to >= 100, so a full directory costs 100 writes there)
	DirMax int `json:"dir_max,omitempty"`
	// Search > 0 turns the case into a small search (used by replays of findings, so that they do not
	// depend on step numbers): all schedules with <= Search forced preemptions are executed; the case
	// fails with the first failing schedule (or reports the first schedule that shows the known
	// finding named by FindKnown).
	Search    int    `json:"search,omitempty"`
	FindKnown string `json:"find_known,omitempty"`
	// Wide marks catalogue programs with hundreds of keys: light backend only, one forced preemption
	Wide bool `json:"wide,omitempty"`
	// Deep marks catalogue programs that get the full preemption bound in the quick tier as well
	Deep bool `json:"deep,omitempty"`
	// Window restricts forced preemptions to the concurrent phase when enumerating (bookkeeping only)
	Note string `json:"note,omitempty"`
}

// Run is the observable outcome of one episode.
type Run struct {
	Out     detsync.Outcome
	Hist    []HOp
	ProEnd  int // number of history entries that belong to the sequential prologue
	EpiFrom int
	Init    *model.M
	Slots   map[int]int
	// step window of the concurrent phase
	ConcFrom, ConcTo int
	Events           []HookEvent
	OpenErr          string
	Overlap          bool // some two operations on one key overlapped in time, one of them a write
	HookTrace        []string
}

// CountCands, when non-nil, receives the number of candidates at every scheduling point of the
// concurrent phase (relative step numbers) of the next Execute.
var CountCands *[]int

// CountWorkingOnly makes CountCands report only working goroutines (not parked pollers or timers).
var CountWorkingOnly bool

// HookEvent is one instrumented step inside fs_db, attributed to the goroutine that made it.
type HookEvent struct {
	G    int
	Kind string
	Arg  string
	T    int // value of the history clock when it happened
}

type runner struct {
	events  []HookEvent
	c       Case
	b       backend
	hist    []HOp
	clock   int
	txs     map[int]fs_db.Tx
	byHash  map[[32]byte]model.Val
	ctx     context.Context
	trace   []string
	traceOn bool

	enospcAfter int
	written     int
}

func (r *runner) tick() int { r.clock++; return r.clock }

func (r *runner) key(i int) string {
	if i < 0 {
		i = -i
	}
	return r.c.Keys[i%len(r.c.Keys)]
}

// do executes one client operation and records it.
func (r *runner) do(client, idx int, op COp, uniq int) {
	h := HOp{Client: client, Index: idx, K: op.K, Slot: op.Slot, Lvl: op.Lvl, G: detsync.CurrentID()}
	var s fs_db.Store = r.b.DB()
	var tx fs_db.Tx
	if op.Slot > 0 {
		tx = r.txs[op.Slot]
		if tx != nil {
			s = tx
		}
	}
	if op.K != "begin" && op.K != "gc" && op.Slot > 0 && tx == nil {
		return // the slot was never begun (shrunk program): skip
	}
	// a client may be descheduled between two of its calls: scheduling point before the call is stamped
	if client >= 0 {
		detsync.Yield("client-op")
	}
	h.Call = r.tick()
	var err error
	switch op.K {
	case "begin":
		if r.txs[op.Slot] != nil {
			return
		}
		lvl := op.Lvl
		if lvl < 0 || lvl > 3 {
			lvl = 1
		}
		h.Lvl = lvl
		var t fs_db.Tx
		t, err = r.b.DB().Begin(r.ctx, fsmodel.TxIsoLevel(lvl))
		if err == nil {
			r.txs[op.Slot] = t
		}
	case "set":
		h.Key = r.key(op.Key)
		h.Val = model.Val{Len: 8 + op.Len, Seed: uint32(uniq)} // >= 8 bytes: contents of different writes always differ
		b := model.Bytes(h.Val)
		r.byHash[sha256.Sum256(b)] = h.Val
		err = s.Set(r.ctx, h.Key, b)
	case "create":
		h.Key = r.key(op.Key)
		total := 0
		for _, n := range op.Sizes {
			if n > 0 {
				total += n
			}
		}
		h.Val = model.Val{Len: total, Seed: uint32(uniq)}
		b := model.Bytes(h.Val)
		r.byHash[sha256.Sum256(b)] = h.Val
		if op.Enospc > 0 {
			r.enospcAfter = op.Enospc
		}
		var f fs_db.File
		f, err = s.Create(r.ctx, h.Key)
		if err == nil {
			var werr error
			for _, n := range op.Sizes {
				if n < 0 {
					n = 0
				}
				// through a scratch buffer that is overwritten once Write has returned (io.Writer
				// implementations must not retain the slice)
				q := append([]byte(nil), b[:n]...)
				_, werr = f.Write(q)
				for i := range q {
					q[i] ^= 0xA5
				}
				if werr != nil {
					break
				}
				b = b[n:]
			}
			err = f.Close()
			if werr != nil {
				err = werr
			}
		}
		r.enospcAfter = 0
		h.K = "set" // for the oracle a created file is a write that takes effect between Create and Close
		if err != nil {
			h.K = "failed-create"
		}
	case "del":
		h.Key = r.key(op.Key)
		h.Val = model.Val{Del: true}
		err = s.Delete(r.ctx, h.Key)
	case "get":
		h.Key = r.key(op.Key)
		var b []byte
		b, err = s.Get(r.ctx, h.Key)
		if err == nil {
			if v, ok := r.byHash[sha256.Sum256(b)]; ok {
				h.Got = v
			} else {
				h.Garbage = fmt.Sprintf("%d bytes %x", len(b), headOf(b))
			}
		}
	case "keys":
		h.GotKeys, err = s.GetKeys(r.ctx)
	case "commit":
		err = tx.Commit(r.ctx)
	case "rollback":
		err = tx.Rollback(r.ctx)
	case "gc":
		err = r.b.GC(r.ctx)
	default:
		panic("det: unknown op " + op.K)
	}
	h.Err = seq.Class(err)
	if h.Err == model.ErrOther {
		h.Err = model.Err("other: " + err.Error())
	}
	h.Ret = r.tick()
	r.hist = append(r.hist, h)
}

func headOf(b []byte) []byte {
	if len(b) > 8 {
		return b[:8]
	}
	return b
}

// Execute runs one episode: fresh database, prologue, concurrent clients, epilogue, close - all
// inside the managed scheduler.
func Execute(c Case, trace bool) *Run {
	res := &Run{Slots: map[int]int{}}
	r := &runner{c: c, txs: map[int]fs_db.Tx{}, byHash: map[[32]byte]model.Val{}, ctx: context.Background(), traceOn: trace}
	// hook points inside fs_db are scheduling points too (they separate "resolve version" from
	// "look up content record" from "open file")
	verifhook.SetPoint(func(kind, arg string) error {
		if detsync.Active() {
			if len(r.events) < 20000 {
				r.events = append(r.events, HookEvent{G: detsync.CurrentID(), Kind: kind, Arg: arg, T: r.clock})
			}
			if trace && len(r.trace) < 5000 {
				r.trace = append(r.trace, fmt.Sprintf("%d %s %s", detsync.Steps(), kind, shortArg(arg)))
			}
			detsync.Yield(kind)
		}
		return nil
	})
	verifhook.SetWrite(func(path string, size int) (int, error) {
		if detsync.Active() {
			detsync.Yield("file.write")
		}
		if r.enospcAfter > 0 {
			if r.written+size >= r.enospcAfter {
				return 0, syscall.ENOSPC
			}
			r.written += size
		}
		return size, nil
	})
	defer verifhook.SetPoint(nil)
	defer verifhook.SetWrite(nil)
	var b backend
	closed := false
	pol := &phasePolicy{inner: c.Sched.Policy()}
	if CountCands != nil {
		pol.inner = &detsync.Counting{Inner: pol.inner}
	}
	out := detsync.Run(detsync.Config{Policy: pol, Trace: trace}, func() {
		var err error
		if c.Light {
			b, err = newLight(c.DirMax)
		} else {
			b, err = newHeavy(c.Keys)
		}
		if err != nil {
			res.OpenErr = err.Error()
			return
		}
		r.b = b
		uniq := 1
		for i, op := range c.Prologue {
			r.do(-1, i, op, uniq)
			uniq++
		}
		res.ProEnd = len(r.hist)
		res.ConcFrom = detsync.Steps()
		pol.base, pol.on = res.ConcFrom, true
		var wg detsync.WaitGroup
		for ci, script := range c.Clients {
			wg.Add(1)
			ci, script := ci, script
			base := 1000 * (ci + 1)
			detsync.GoNamed(fmt.Sprintf("client%d", ci), func() {
				defer wg.Done()
				for i, op := range script {
					r.do(ci, i, op, base+i)
				}
			})
		}
		wg.Wait()
		res.ConcTo = detsync.Steps()
		pol.on = false
		if cp, ok := pol.inner.(*detsync.Counting); ok && CountCands != nil {
			*CountCands = cp.N
			if CountWorkingOnly {
				*CountCands = cp.NW
			}
		}
		res.EpiFrom = len(r.hist)
		if c.Epilogue {
			// end whatever is still open (rollback), then read everything outside any transaction
			var slots []int
			for s := range r.txs {
				slots = append(slots, s)
			}
			sort.Ints(slots)
			n := 0
			// every transaction that is still open reads every key once more: whatever order the
			// concurrent phase left behind must look the same to all isolation levels
			for _, s := range slots {
				for ki := range c.Keys {
					r.do(-2, n, COp{K: "get", Slot: s, Key: ki}, 0)
					n++
				}
			}
			for _, s := range slots {
				r.do(-2, n, COp{K: "rollback", Slot: s}, 0)
				n++
			}
			for ki := range c.Keys {
				r.do(-2, n, COp{K: "get", Key: ki}, 0)
				n++
			}
			r.do(-2, n, COp{K: "keys"}, 0)
		}
		b.Close()
		closed = true
	})
	res.Out = out
	res.Hist = r.hist
	res.HookTrace = r.trace
	res.Events = r.events
	if b != nil && !closed {
		// deadlock / panic: release the resources from outside the scheduler
		b.Abandon()
	}
	return res
}

func shortArg(a string) string {
	if i := strings.LastIndex(a, "/"); i >= 0 && len(a) > 40 {
		return "…" + a[i:]
	}
	return a
}

// Judge applies the oracle of the concurrency properties to a run: no deadlock / panic, and the
// recorded history has a linearization accepted by the reference model.
func Judge(c Case, run *Run, r *ev.Result) {
	o := run.Out
	switch {
	case run.OpenErr != "":
		r.Failf("opening the database failed: %s", run.OpenErr)
		return
	case o.TimedOut:
		panic(fmt.Sprintf("INFRA: episode timed out in real time; waiting: %v", o.Waiting))
	case o.StepLimit:
		panic(fmt.Sprintf("INFRA: episode exceeded the step limit; waiting: %v", o.Waiting))
	case o.Panic != "":
		r.Failf("a goroutine panicked under this schedule: %s", o.Panic)
	case o.Deadlock:
		r.Failf("deadlock under this schedule: no goroutine can run while client operations are unfinished; %s", strings.Join(o.Waiting, "; "))
	}
	if r.Fail != "" {
		for _, h := range run.Hist {
			r.Logf("%s", h)
		}
		r.Trace = append(r.Trace, o.Trace...)
		return
	}
	// sequential prologue: apply in order (it must be accepted as is)
	st := linState{m: model.New(), slots: map[int]int{}}
	for i := 0; i < run.ProEnd; i++ {
		if !st.step(run.Hist[i]) {
			r.Failf("sequential prologue step disagrees with the reference model: %s", run.Hist[i])
			return
		}
	}
	ops := run.Hist[run.ProEnd:]
	ok, witness, explored := Linearizable(st.m, st.slots, ops)
	r.Count("lin_states", int64(explored))
	if !ok {
		// known findings: each has a signature evaluated over the executed trace; the reads it names
		// become wildcards in the search, nothing else is excused
		type kf struct {
			id   string
			wild []int
		}
		var kfs []kf
		if ev.KnownOpen(KnownUnpinnedRead) {
			if w := unpinnedReads(run, ops); len(w) > 0 {
				kfs = append(kfs, kf{KnownUnpinnedRead, w})
			}
		}
		if ev.KnownOpen(KnownBeginVsCollector) {
			if w := beginVsCollector(run, ops); len(w) > 0 {
				kfs = append(kfs, kf{KnownBeginVsCollector, w})
			}
		}
		try := func(sel []kf) bool {
			wild := append([]HOp(nil), ops...)
			for _, k := range sel {
				for _, i := range k.wild {
					wild[i].Wild = true
				}
			}
			ok2, _, _ := Linearizable(st.m, st.slots, wild)
			return ok2
		}
		for _, k := range kfs {
			if !ok && try([]kf{k}) {
				r.KnownHits = append(r.KnownHits, k.id)
				ok = true
			}
		}
		if !ok && len(kfs) > 1 && try(kfs) {
			for _, k := range kfs {
				r.KnownHits = append(r.KnownHits, k.id)
			}
			ok = true
		}
	}
	if !ok {
		var b strings.Builder
		fmt.Fprintf(&b, "history is not linearizable: no order of the %d concurrent operations consistent with real time is accepted by the sequential model. Operations:\n", len(ops))
		for _, h := range ops {
			fmt.Fprintf(&b, "    %s\n", h)
		}
		fmt.Fprintf(&b, "  longest linearizable prefix found (%d ops):", len(witness))
		for _, i := range witness {
			fmt.Fprintf(&b, " {%s}", shortOp(ops[i]))
		}
		r.Failf("%s", b.String())
		for _, h := range run.Hist[:run.ProEnd] {
			r.Logf("prologue %s", h)
		}
		r.Trace = append(r.Trace, run.HookTrace...)
	}
	// overlap statistics for the non-triviality rules
	for i := range ops {
		for j := i + 1; j < len(ops); j++ {
			a, b := ops[i], ops[j]
			if a.Client == b.Client || a.Client < 0 || b.Client < 0 {
				continue
			}
			if a.Call < b.Ret && b.Call < a.Ret {
				aw := a.K == "set" || a.K == "del" || a.K == "commit"
				bw := b.K == "set" || b.K == "del" || b.K == "commit"
				if (aw || bw) && (a.Key == b.Key || a.K == "commit" || b.K == "commit" || a.K == "keys" || b.K == "keys") {
					run.Overlap = true
				}
			}
		}
	}
}

func shortOp(o HOp) string {
	s := o.String()
	if i := strings.Index(s, "] "); i >= 0 {
		s = s[i+2:]
	}
	return s
}

var _ = bytes.Equal
var _ = io.EOF

// KnownUnpinnedRead is the id of the known finding "reads do not pin the content they resolved".
const KnownUnpinnedRead = "C06-unpinned-read"

// KnownBeginVsCollector is the id of the known finding "Begin draws its number before it registers".
const KnownBeginVsCollector = "C08-begin-vs-collector"

// beginVsCollector returns the indices of the reads of snapshot transactions for which the collector
// used a horizon above their own sequence number while they were beginning or open. A correct
// collector never does: versions a live snapshot needs lie below its number. fs_db can, in two ways
// (both the same defect - Begin draws its number and only then registers, and the registry hands the
// collector the transaction that registered first, not the one with the smallest number): the collector
// looks at the registry between a Begin's draw and its registration (and then draws a fresh, larger
// horizon), or two Begins register in the opposite order of their numbers.
// Observed through the hook trace: "tx.registered <id> <seq>" inside the Begin's interval gives the
// transaction's number, "cleaner.horizon <seq>" the horizon of every collector run and the moment it was
// fixed. A transaction whose Begin was called only AFTER the horizon had been fixed is never excused:
// its number is necessarily larger than any horizon a correct collector could have drawn before.
func beginVsCollector(run *Run, ops []HOp) []int {
	type hz struct {
		t int
		h uint64
	}
	var horizons []hz
	for _, e := range run.Events {
		if e.Kind == "cleaner.horizon" {
			if h, err := strconv.ParseUint(strings.TrimSpace(e.Arg), 10, 64); err == nil {
				horizons = append(horizons, hz{e.T, h})
			}
		}
	}
	if len(horizons) == 0 {
		return nil
	}
	var out []int
	for _, b := range ops {
		if b.K != "begin" || b.Lvl < 2 {
			continue
		}
		seq, ok := uint64(0), false
		for _, e := range run.Events {
			if e.Kind == "tx.registered" && e.G == b.G && e.T >= b.Call && e.T <= b.Ret {
				if f := strings.Fields(e.Arg); len(f) == 2 {
					if v, err := strconv.ParseUint(f[1], 10, 64); err == nil {
						seq, ok = v, true
					}
				}
			}
		}
		if !ok {
			continue
		}
		end := int(^uint(0) >> 1)
		for _, o := range ops {
			if o.Slot == b.Slot && (o.K == "commit" || o.K == "rollback") && o.Call > b.Ret && o.Call < end {
				end = o.Call
			}
		}
		hit := false
		for _, h := range horizons {
			if h.t >= b.Call && h.t <= end && h.h > seq {
				hit = true
			}
		}
		if !hit {
			continue
		}
		for i, o := range ops {
			if o.Slot == b.Slot && (o.K == "get" || o.K == "keys") {
				out = append(out, i)
			}
		}
	}
	return out
}

func contentID(arg string) string {
	if i := strings.LastIndex(arg, "/"); i >= 0 {
		return arg[i+1:]
	}
	return arg
}

// unpinnedReads returns the indices of read operations (get/keys) during which a content they
// touched (content-record lookup or file open) was removed by another goroutine.
func unpinnedReads(run *Run, ops []HOp) []int {
	var out []int
	for i, o := range ops {
		if o.K != "get" && o.K != "keys" {
			continue
		}
		touched := map[string]bool{}
		for _, e := range run.Events {
			if e.G == o.G && e.T >= o.Call && e.T < o.Ret && (e.Kind == "badger.get" || e.Kind == "os.open") {
				touched[contentID(e.Arg)] = true
			}
		}
		hit := false
		for _, e := range run.Events {
			if e.G != o.G && e.T >= o.Call && e.T <= o.Ret && (e.Kind == "os.remove" || e.Kind == "badger.delete") && touched[contentID(e.Arg)] {
				hit = true
			}
		}
		if hit {
			out = append(out, i)
		}
	}
	return out
}
