package unit

import (
	"fmt"
	"math/bits"
	"testing"

	"pgregory.net/rapid"

	"github.com/glebziz/fs_db/internal/model"
	"github.com/glebziz/fs_db/internal/model/core"
	"github.com/glebziz/fs_db/internal/model/sequence"
	"github.com/glebziz/fs_db/internal/verifh/ev"
)

// ---- specification: a plain slice, scanned linearly -----------------------------------------

type specList []uint64

func (s specList) lastBefore(p uint64) uint64 {
	var r uint64
	for _, v := range s {
		if v < p {
			r = v
		}
	}
	return r
}

func (s specList) latest() uint64 {
	if len(s) == 0 {
		return 0
	}
	return s[len(s)-1]
}

// collect removes exactly the versions that have a successor not newer than the horizon.
func (s specList) collect(h uint64) (removed, rest specList) {
	i := 0
	for i+1 < len(s) && s[i+1] <= h {
		i++
	}
	return append(specList{}, s[:i]...), append(specList{}, s[i:]...)
}

// ---- the implementation, through the exported surface only ----------------------------------

const c18Key = "k"

type implList struct {
	tx   *core.Transaction
	free []*core.Node[model.File]
	key  string
}

func newImpl(key string) *implList { return &implList{tx: &core.Transaction{}, key: key} }

func (l *implList) node(seq uint64) *core.Node[model.File] {
	var n *core.Node[model.File]
	if k := len(l.free); k > 0 { // recycle nodes the way the node pool does
		n = l.free[k-1]
		l.free = l.free[:k-1]
		*n = *new(core.Node[model.File])
	} else {
		n = new(core.Node[model.File])
	}
	return n.SetV(model.File{Key: l.key, Seq: sequence.Seq(seq), ContentId: fmt.Sprint(seq)})
}

func (l *implList) push(seq uint64) { l.tx.PushBack(l.node(seq)) }
func (l *implList) lastBefore(p uint64) uint64 {
	return uint64(l.tx.File(l.key).LastBefore(sequence.Seq(p)).Seq)
}
func (l *implList) latest() uint64 { return uint64(l.tx.File(l.key).Latest().Seq) }
func (l *implList) popFront() (uint64, bool) {
	n := l.tx.File(l.key).PopFront()
	if n == nil {
		return 0, false
	}
	v := uint64(n.V().Seq)
	l.free = append(l.free, n)
	return v, true
}
func (l *implList) popBack() (uint64, bool) {
	n := l.tx.File(l.key).PopBack()
	if n == nil {
		return 0, false
	}
	v := uint64(n.V().Seq)
	l.free = append(l.free, n)
	return v, true
}

// collect consumes IterateBeforeSeq exactly the way usecase/core DeleteOld does.
func (l *implList) collect(h uint64) (removed []uint64) {
	f := l.tx.File(l.key)
	for file := range f.IterateBeforeSeq(sequence.Seq(h)) {
		removed = append(removed, uint64(file.Seq))
		n := f.PopFront()
		if n != nil {
			l.free = append(l.free, n)
		}
	}
	return removed
}

func eqU(a, b []uint64) bool {
	if len(a) != len(b) {
		return false
	}
	for i := range a {
		if a[i] != b[i] {
			return false
		}
	}
	return true
}

// ---- part 1: exhaustive over all subsets of {1..12}, all probes and horizons 0..13 ----------

type c18ExhCase struct {
	Mask int `json:"mask"` // bit i set <=> version i+1 present
}

func execC18Exhaustive(c c18ExhCase) *ev.Result {
	r := &ev.Result{}
	var s specList
	for i := 0; i < 12; i++ {
		if c.Mask>>i&1 == 1 {
			s = append(s, uint64(i+1))
		}
	}
	r.NonTrivial = len(s) >= 3 // a probe strictly inside exists and is exercised below
	r.Class(fmt.Sprintf("len=%d", len(s)))
	build := func() *implList {
		l := newImpl(c18Key)
		if len(s) == 0 {
			// make the per-key store exist but be empty: push one version and pop it again
			l.push(1)
			l.popBack()
		}
		for _, v := range s {
			l.push(v)
		}
		return l
	}
	l := build()
	var lookups int64
	for p := uint64(0); p <= 13; p++ {
		lookups++
		if got, want := l.lastBefore(p), s.lastBefore(p); got != want {
			r.Failf("versions %v: LastBefore(%d) = %d, linear scan says %d", s, p, got, want)
			return r
		}
	}
	if got := l.latest(); got != s.latest() {
		r.Failf("versions %v: Latest = %d, want %d", s, got, s.latest())
		return r
	}
	for h := uint64(0); h <= 13; h++ {
		l := build()
		wantRemoved, rest := s.collect(h)
		gotRemoved := l.collect(h)
		if !eqU(gotRemoved, wantRemoved) {
			r.Failf("versions %v: collect(%d) removed %v, specification removes %v", s, h, gotRemoved, wantRemoved)
			return r
		}
		for p := uint64(0); p <= 13; p++ {
			lookups++
			got := l.lastBefore(p)
			if want := rest.lastBefore(p); got != want {
				r.Failf("versions %v after collect(%d): LastBefore(%d) = %d, linear scan of the remaining %v says %d", s, h, p, got, rest, want)
				return r
			}
			// the statement itself: lookups at or after the horizon are unchanged by collection
			hIsVersion := false
			for _, v := range s {
				if v == h {
					hIsVersion = true
				}
			}
			if p > h || (p == h && !hIsVersion) {
				if want := s.lastBefore(p); got != want {
					r.Failf("versions %v: collect(%d) changed LastBefore(%d) from %d to %d", s, h, p, want, got)
					return r
				}
			}
		}
		if got := l.latest(); got != rest.latest() {
			r.Failf("versions %v after collect(%d): Latest = %d, want %d", s, h, got, rest.latest())
			return r
		}
		// the remaining list pops in order
		for _, v := range rest {
			if got, ok := l.popFront(); !ok || got != v {
				r.Failf("versions %v after collect(%d): PopFront = %d,%v want %d", s, h, got, ok, v)
				return r
			}
		}
		if _, ok := l.popFront(); ok {
			r.Failf("versions %v after collect(%d): list longer than specification", s, h)
			return r
		}
	}
	r.Count("lookups", lookups)
	r.Count("collects", 14)
	return r
}

func TestC18Exhaustive(t *testing.T) {
	const prop, part = "C18", "exhaustive"
	t.Cleanup(func() { ev.Flush(prop, part) })
	if ev.Replaying() {
		ev.Check(t, prop, part, func(*rapid.T) c18ExhCase { return c18ExhCase{} }, execC18Exhaustive)
		return
	}
	ok := true
	for m := 0; m < 1<<12; m++ {
		c := c18ExhCase{Mask: m}
		if !ev.Direct(t, prop, part, c, execC18Exhaustive(c)) {
			ok = false
			break // first failure is enough; lower masks are smaller lists
		}
	}
	if ok {
		ev.Exhaustive(prop)
	}
	_ = bits.OnesCount
}

// ---- part 2: random long lists and random operation interleavings ---------------------------

type c18Op struct {
	Kind string `json:"k"` // push | popf | popb | collect | probe | latest
	Arg  uint64 `json:"a"` // push: gap to previous; collect/probe: selector (see resolve)
	Mode int    `json:"m"` // probe/collect: 0 = at a version, 1 = between, 2 = below all, 3 = above all, 4 = raw Arg
}

type c18SeqCase struct {
	Gaps []uint64 `json:"gaps"` // initial list: strictly increasing by these gaps (>=1)
	Ops  []c18Op  `json:"ops"`
}

func genC18Seq(t *rapid.T) c18SeqCase {
	gap := rapid.OneOf(
		rapid.Uint64Range(1, 3),
		rapid.Uint64Range(1, 1000),
		rapid.Uint64Range(1, 1<<40),
	)
	n := rapid.OneOf(rapid.IntRange(0, 8), rapid.IntRange(0, 64), rapid.IntRange(0, 5000)).Draw(t, "n")
	c := c18SeqCase{Gaps: make([]uint64, n)}
	g := gap.Draw(t, "gapKind")
	_ = g
	for i := range c.Gaps {
		c.Gaps[i] = rapid.OneOf(rapid.Uint64Range(1, 3), rapid.Uint64Range(1, 1<<20)).Draw(t, "gap")
	}
	// version numbers are any 64-bit numbers: now and then the list starts just below 2^63, at 2^63 or
	// near the end of the range (2^34 below it, so that everything pushed later still fits)
	if n > 0 && rapid.IntRange(0, 5).Draw(t, "highBase") == 0 {
		c.Gaps[0] = rapid.SampledFrom([]uint64{1 << 62, 1<<63 - 2, 1 << 63, 1<<63 + 1, ^uint64(0) - 1<<34}).Draw(t, "base")
	}
	nops := rapid.IntRange(1, 60).Draw(t, "nops")
	for i := 0; i < nops; i++ {
		k := rapid.SampledFrom([]string{"push", "push", "popf", "popb", "collect", "collect", "probe", "probe", "probe", "latest"}).Draw(t, "kind")
		op := c18Op{Kind: k}
		switch k {
		case "push":
			op.Arg = rapid.OneOf(rapid.Uint64Range(1, 3), rapid.Uint64Range(1, 1<<20)).Draw(t, "gap")
		case "collect", "probe":
			op.Mode = rapid.IntRange(0, 4).Draw(t, "mode")
			op.Arg = rapid.Uint64().Draw(t, "sel")
		}
		c.Ops = append(c.Ops, op)
	}
	return c
}

func resolvePoint(s specList, mode int, sel uint64, maxSeen uint64) uint64 {
	if len(s) == 0 || mode == 4 {
		if mode == 3 {
			return maxSeen + 1 + sel%5
		}
		return sel % (maxSeen + 3)
	}
	switch mode {
	case 0:
		return s[sel%uint64(len(s))]
	case 1:
		i := sel % uint64(len(s))
		if s[i] > 0 {
			return s[i] - 1 + (sel>>32)%3 // just below, at, or just above a version
		}
		return s[i]
	case 2:
		if s[0] > 0 {
			return s[0] - 1
		}
		return 0
	default:
		return s[len(s)-1] + 1 + sel%5
	}
}

func execC18Seq(c c18SeqCase) *ev.Result {
	r := &ev.Result{}
	l := newImpl(c18Key)
	var s specList
	var next uint64
	for _, g := range c.Gaps {
		if g == 0 {
			g = 1
		}
		next += g
		l.push(next)
		s = append(s, next)
	}
	r.Class(fmt.Sprintf("initlen<=%d", bucket(len(s))))
	probesInside := 0
	for i, op := range c.Ops {
		switch op.Kind {
		case "push":
			g := op.Arg
			if g == 0 {
				g = 1
			}
			next += g
			l.push(next)
			s = append(s, next)
		case "popf":
			got, ok := l.popFront()
			if len(s) == 0 {
				if ok {
					r.Failf("step %d: PopFront on empty list returned %d", i, got)
					return r
				}
				continue
			}
			if !ok || got != s[0] {
				r.Failf("step %d: PopFront = %d,%v want %d", i, got, ok, s[0])
				return r
			}
			s = s[1:]
		case "popb":
			got, ok := l.popBack()
			if len(s) == 0 {
				if ok {
					r.Failf("step %d: PopBack on empty list returned %d", i, got)
					return r
				}
				continue
			}
			if !ok || got != s[len(s)-1] {
				r.Failf("step %d: PopBack = %d,%v want %d", i, got, ok, s[len(s)-1])
				return r
			}
			s = s[:len(s)-1]
			// sequence numbers only grow in fs_db: a popped tail number is never reused
		case "collect":
			if next == 0 { // per-key store does not exist yet
				continue
			}
			h := resolvePoint(s, op.Mode, op.Arg, next)
			wantRemoved, rest := s.collect(h)
			gotRemoved := l.collect(h)
			if !eqU(gotRemoved, wantRemoved) {
				r.Failf("step %d: collect(%d) on %s removed %s, specification removes %s", i, h, brief(s), brief(gotRemoved), brief(wantRemoved))
				return r
			}
			if len(wantRemoved) > 0 {
				r.Class("collect-removed")
			}
			s = rest
		case "probe":
			if next == 0 {
				continue
			}
			p := resolvePoint(s, op.Mode, op.Arg, next)
			if len(s) >= 3 && p > s[0] && p <= s[len(s)-1] {
				probesInside++
			}
			if got, want := l.lastBefore(p), s.lastBefore(p); got != want {
				r.Failf("step %d: LastBefore(%d) on %s = %d, linear scan says %d", i, p, brief(s), got, want)
				return r
			}
		case "latest":
			if next == 0 {
				continue
			}
			if got, want := l.latest(), s.latest(); got != want {
				r.Failf("step %d: Latest on %s = %d want %d", i, brief(s), got, want)
				return r
			}
		}
	}
	// final sweep: probe at, just below and just above every remaining version (bounded)
	if next > 0 {
		step := 1
		if len(s) > 200 {
			step = len(s) / 200
		}
		for i := 0; i < len(s); i += step {
			for _, p := range []uint64{s[i] - 1, s[i], s[i] + 1} {
				if got, want := l.lastBefore(p), s.lastBefore(p); got != want {
					r.Failf("final sweep: LastBefore(%d) on %s = %d, linear scan says %d", p, brief(s), got, want)
					return r
				}
			}
		}
	}
	r.NonTrivial = probesInside > 0
	return r
}

func bucket(n int) int {
	for _, b := range []int{0, 2, 8, 64, 512, 5000} {
		if n <= b {
			return b
		}
	}
	return 1 << 30
}

func brief(s []uint64) string {
	if len(s) <= 16 {
		return fmt.Sprint([]uint64(s))
	}
	return fmt.Sprintf("[%d %d %d ... %d %d] (len %d)", s[0], s[1], s[2], s[len(s)-2], s[len(s)-1], len(s))
}

func TestC18Seq(t *testing.T) {
	ev.Check(t, "C18", "seq", genC18Seq, execC18Seq)
}
