package unit

import (
	"bytes"
	"context"
	"encoding/binary"
	"encoding/hex"
	"fmt"
	"sort"
	"strings"
	"testing"

	"pgregory.net/rapid"

	"github.com/glebziz/fs_db/internal/db/badger"
	"github.com/glebziz/fs_db/internal/model"
	"github.com/glebziz/fs_db/internal/model/sequence"
	"github.com/glebziz/fs_db/internal/model/transactor"
	fileRepo "github.com/glebziz/fs_db/internal/repository/file"
	"github.com/glebziz/fs_db/internal/verifh/ev"
)

// ---- recording key-value provider ------------------------------------------------------------

type fakeKV struct {
	m map[string][]byte
}

func newFakeKV() *fakeKV { return &fakeKV{m: map[string][]byte{}} }

func (f *fakeKV) RunTransaction(ctx context.Context, fn transactor.TransactionFn) error {
	return fn(ctx)
}
func (f *fakeKV) DB(context.Context) badger.QueryManager { return f }
func (f *fakeKV) Set(key, val []byte) error {
	f.m[string(key)] = append([]byte{}, val...)
	return nil
}
func (f *fakeKV) Get(key []byte) ([]byte, error) { return f.m[string(key)], nil }
func (f *fakeKV) Delete(key []byte) error        { delete(f.m, string(key)); return nil }
func (f *fakeKV) GetAll(prefix []byte) ([]badger.Item, error) {
	var keys []string
	for k := range f.m {
		if strings.HasPrefix(k, string(prefix)) {
			keys = append(keys, k)
		}
	}
	sort.Strings(keys)
	var items []badger.Item
	for _, k := range keys {
		items = append(items, badger.Item{Key: []byte(k), Value: f.m[k]})
	}
	return items, nil
}

// ---- independent reference codec (written from the documented layout, not from the code) ----
//
//	8-byte little-endian sequence | 16-byte transaction id | 16-byte content id | raw key
//	stored under the Badger key "file/<content id>"

func uuidBytes(u string) [16]byte {
	var out [16]byte
	h := strings.ReplaceAll(u, "-", "")
	b, err := hex.DecodeString(h)
	if err != nil || len(b) != 16 {
		panic("harness: not a canonical uuid: " + u)
	}
	copy(out[:], b)
	return out
}

func uuidString(b []byte) string {
	h := hex.EncodeToString(b)
	return h[0:8] + "-" + h[8:12] + "-" + h[12:16] + "-" + h[16:20] + "-" + h[20:32]
}

func refEncode(f model.File) []byte {
	out := make([]byte, 0, 40+len(f.Key))
	var s [8]byte
	for i := 0; i < 8; i++ { // little endian by hand
		s[i] = byte(uint64(f.Seq) >> (8 * i))
	}
	out = append(out, s[:]...)
	t := uuidBytes(f.TxId)
	out = append(out, t[:]...)
	c := uuidBytes(f.ContentId)
	out = append(out, c[:]...)
	return append(out, f.Key...)
}

func refDecode(b []byte) (model.File, bool) {
	if len(b) < 40 {
		return model.File{}, false
	}
	var seq uint64
	for i := 7; i >= 0; i-- {
		seq = seq<<8 | uint64(b[i])
	}
	return model.File{Seq: sequence.Seq(seq), TxId: uuidString(b[8:24]), ContentId: uuidString(b[24:40]), Key: string(b[40:])}, true
}

// ---- part 1: records -> Set -> bytes (vs reference) -> GetAll -> records ---------------------

type c19Rec struct {
	KeyHex  string `json:"key_hex"`
	Tx      string `json:"tx"`
	Content string `json:"content"`
	Seq     uint64 `json:"seq"`
}

type c19RoundCase struct {
	Recs []c19Rec `json:"recs"`
}

var seqBoundary = []uint64{0, 1, 2, 255, 256, 65535, 65536, 1<<32 - 1, 1 << 32, 1<<63 - 1, 1 << 63, 1<<64 - 1,
	0x0102030405060708, 0x8000000000000001}

func genUUID(t *rapid.T, label string) string {
	k := rapid.IntRange(0, 9).Draw(t, label+"Kind")
	switch k {
	case 0:
		return model.MainTxId
	case 1:
		return "ffffffff-ffff-ffff-ffff-ffffffffffff"
	case 2:
		return "00010203-0405-0607-0809-0a0b0c0d0e0f"
	}
	if k <= 5 {
		// structured ids: mostly zero (or 0xff) bytes with a few others anywhere - low-numbered ids, ids that
		// agree with the all-zero main id in one half, ids with a zero byte at any position
		b := make([]byte, 16)
		fill := rapid.SampledFrom([]byte{0, 0, 0xff}).Draw(t, label+"Fill")
		for i := range b {
			b[i] = fill
		}
		for n := rapid.IntRange(1, 3).Draw(t, label+"Marks"); n > 0; n-- {
			b[rapid.IntRange(0, 15).Draw(t, label+"Pos")] = rapid.Byte().Draw(t, label+"Mark")
		}
		return uuidString(b)
	}
	b := rapid.SliceOfN(rapid.Byte(), 16, 16).Draw(t, label)
	return uuidString(b)
}

func genKeyBytes(t *rapid.T) []byte {
	return rapid.OneOf(
		rapid.Just([]byte{}),
		rapid.SliceOfN(rapid.Byte(), 1, 8),
		rapid.SliceOfN(rapid.Byte(), 0, 64),
		rapid.SliceOfN(rapid.Byte(), 1000, 4096),
		rapid.SliceOfN(rapid.SampledFrom([]byte{0, 0x80, 0xff, '/', 'a'}), 1, 12),
	).Draw(t, "key")
}

func genC19Round(t *rapid.T) c19RoundCase {
	n := rapid.IntRange(1, 6).Draw(t, "n")
	var c c19RoundCase
	var prev []byte
	for i := 0; i < n; i++ {
		key := genKeyBytes(t)
		// keys that are near relatives of the previous record's key: the same bytes but for the last one, one byte
		// longer or shorter, and lengths around powers of two (whatever keys are grouped or interned by)
		switch rapid.IntRange(0, 5).Draw(t, "related") {
		case 0:
			if len(prev) > 0 {
				key = append([]byte(nil), prev...)
				key[len(key)-1] ^= byte(rapid.IntRange(1, 255).Draw(t, "flip"))
			}
		case 1:
			key = append(append([]byte(nil), prev...), rapid.Byte().Draw(t, "extra"))
		case 2:
			l := rapid.SampledFrom([]int{15, 16, 17, 31, 32, 33, 63, 64, 65, 255, 256, 257}).Draw(t, "keyLen")
			key = rapid.SliceOfN(rapid.SampledFrom([]byte{'a', 'b', '0', 0, 0xff}), l, l).Draw(t, "lenKey")
		}
		prev = key
		c.Recs = append(c.Recs, c19Rec{
			KeyHex:  hex.EncodeToString(key),
			Tx:      genUUID(t, "tx"),
			Content: genUUID(t, "content"),
			Seq:     rapid.OneOf(rapid.SampledFrom(seqBoundary), rapid.Uint64()).Draw(t, "seq"),
		})
	}
	return c
}

func execC19Round(c c19RoundCase) *ev.Result {
	r := &ev.Result{}
	kv := newFakeKV()
	repo := fileRepo.New(kv)
	ctx := context.Background()
	want := map[string]model.File{} // by content id (= storage key): later Set wins
	for i, rec := range c.Recs {
		kb, _ := hex.DecodeString(rec.KeyHex)
		f := model.File{Key: string(kb), TxId: rec.Tx, ContentId: rec.Content, Seq: sequence.Seq(rec.Seq)}
		if err := repo.Set(ctx, f); err != nil {
			r.Failf("record %d: Set(%+v) failed: %v", i, f, err)
			return r
		}
		got, ok := kv.m["file/"+rec.Content]
		if !ok {
			r.Failf("record %d: not stored under key file/<content id>; keys now: %v", i, keysOf(kv.m))
			return r
		}
		if ref := refEncode(f); !bytes.Equal(got, ref) {
			r.Failf("record %d: stored bytes differ from the documented layout\n got  %x\n want %x", i, got, ref)
			return r
		}
		want[rec.Content] = f
		for _, b := range kb {
			if b >= 0x80 || b == 0 {
				r.NonTrivial = true
			}
		}
		if len(kb) == 0 {
			r.Class("empty-key")
		}
		if len(kb) >= 1000 {
			r.Class("long-key")
		}
	}
	files, err := repo.GetAll(ctx)
	if err != nil {
		r.Failf("GetAll failed: %v", err)
		return r
	}
	if len(files) != len(want) {
		r.Failf("GetAll returned %d records, %d were stored", len(files), len(want))
		return r
	}
	for _, f := range files {
		w, ok := want[f.ContentId]
		if !ok || f != w {
			r.Failf("decoded record %+v differs from the encoded one %+v", f, w)
			return r
		}
	}
	return r
}

func keysOf(m map[string][]byte) []string {
	var ks []string
	for k := range m {
		ks = append(ks, k)
	}
	sort.Strings(ks)
	return ks
}

func TestC19Round(t *testing.T) { ev.Check(t, "C19", "round", genC19Round, execC19Round) }

// ---- part 2: arbitrary bytes -> GetAll: never panics, rejects < 40 bytes, else reference decode

type c19BytesCase struct {
	Hex string `json:"hex"`
}

func genC19Bytes(t *rapid.T) c19BytesCase {
	b := rapid.OneOf(
		rapid.SliceOfN(rapid.Byte(), 0, 80),
		rapid.SliceOfN(rapid.Byte(), 38, 42),
		rapid.SliceOfN(rapid.SampledFrom([]byte{0, 0xff, 0x80, 0x7f}), 0, 80),
		rapid.SliceOfN(rapid.Byte(), 0, 3000),
	).Draw(t, "bytes")
	return c19BytesCase{Hex: hex.EncodeToString(b)}
}

func decodeThroughRepo(b []byte) (f model.File, err error, panicked any) {
	defer func() {
		if p := recover(); p != nil {
			panicked = p
		}
	}()
	kv := newFakeKV()
	kv.m["file/x"] = b
	files, err := fileRepo.New(kv).GetAll(context.Background())
	if err != nil {
		return model.File{}, err, nil
	}
	if len(files) != 1 {
		return model.File{}, fmt.Errorf("GetAll returned %d records for one stored value", len(files)), nil
	}
	return files[0], nil, nil
}

func execC19Bytes(c c19BytesCase) *ev.Result {
	r := &ev.Result{}
	b, _ := hex.DecodeString(c.Hex)
	r.NonTrivial = len(b) >= 36 && len(b) <= 44 || len(b) > 0 && len(b) < 40
	r.Class(fmt.Sprintf("len%s40", map[bool]string{true: "<", false: ">="}[len(b) < 40]))
	f, err, p := decodeThroughRepo(b)
	if p != nil {
		r.Failf("decoding %d arbitrary bytes panicked: %v", len(b), p)
		return r
	}
	want, ok := refDecode(b)
	if !ok {
		if err == nil {
			r.Failf("a %d-byte value (shorter than the 40-byte header) was accepted as %+v", len(b), f)
		}
		return r
	}
	if err != nil {
		r.Failf("a well-formed %d-byte value was rejected: %v", len(b), err)
		return r
	}
	if f != want {
		r.Failf("decoded %+v, the documented layout says %+v", f, want)
	}
	return r
}

func TestC19Bytes(t *testing.T) { ev.Check(t, "C19", "bytes", genC19Bytes, execC19Bytes) }

// every length 0..80, a fixed byte pattern: the length rule exhaustively
func TestC19Lengths(t *testing.T) {
	const prop, part = "C19", "lengths"
	t.Cleanup(func() { ev.Flush(prop, part) })
	if ev.Replaying() {
		ev.Check(t, prop, part, func(*rapid.T) c19BytesCase { return c19BytesCase{} }, execC19Bytes)
		return
	}
	for n := 0; n <= 80; n++ {
		for _, fill := range []byte{0x00, 0xff, 0x5a} {
			b := bytes.Repeat([]byte{fill}, n)
			for i := range b {
				b[i] ^= byte(i * 7)
			}
			c := c19BytesCase{Hex: hex.EncodeToString(b)}
			if !ev.Direct(t, prop, part, c, execC19Bytes(c)) {
				return
			}
		}
	}
}

// ---- part 3: golden vectors, written by hand from the documented layout ----------------------

type golden struct {
	name string
	hex  string
	file model.File
}

var goldens = []golden{
	{"seq=1 main tx, key 'a'",
		"0100000000000000" + "00000000000000000000000000000000" + "000102030405060708090a0b0c0d0e0f" + "61",
		model.File{Seq: 1, TxId: model.MainTxId, ContentId: "00010203-0405-0607-0809-0a0b0c0d0e0f", Key: "a"}},
	{"seq=0x0102030405060708, distinct ids, empty key",
		"0807060504030201" + "a1a2a3a4b1b2c1c2d1d2e1e2e3e4e5e6" + "f0f1f2f3f4f5f6f7f8f9fafbfcfdfeff" + "",
		model.File{Seq: 0x0102030405060708, TxId: "a1a2a3a4-b1b2-c1c2-d1d2-e1e2e3e4e5e6", ContentId: "f0f1f2f3-f4f5-f6f7-f8f9-fafbfcfdfeff", Key: ""}},
	{"seq=2^64-1, key with NUL, slash and non-UTF-8 byte",
		"ffffffffffffffff" + "ffffffffffffffffffffffffffffffff" + "11111111222233334444555555555555" + "002f80ff6b",
		model.File{Seq: 1<<64 - 1, TxId: "ffffffff-ffff-ffff-ffff-ffffffffffff", ContentId: "11111111-2222-3333-4444-555555555555", Key: "\x00/\x80\xffk"}},
	{"seq=256, key 'some/long key'",
		"0001000000000000" + "0123456789abcdef0123456789abcdef" + "fedcba9876543210fedcba9876543210" + hex.EncodeToString([]byte("some/long key")),
		model.File{Seq: 256, TxId: "01234567-89ab-cdef-0123-456789abcdef", ContentId: "fedcba98-7654-3210-fedc-ba9876543210", Key: "some/long key"}},
}

type c19GoldenCase struct {
	Index int `json:"index"`
}

func execC19Golden(c c19GoldenCase) *ev.Result {
	r := &ev.Result{NonTrivial: true}
	g := goldens[c.Index%len(goldens)]
	raw, err := hex.DecodeString(g.hex)
	if err != nil {
		panic(err)
	}
	// self-check of the harness: the reference codec agrees with the hand-written vector
	if !bytes.Equal(refEncode(g.file), raw) {
		panic("harness bug: reference encoder disagrees with golden vector " + g.name)
	}
	if binary.LittleEndian.Uint64(raw[:8]) != uint64(g.file.Seq) {
		panic("harness bug: golden vector " + g.name)
	}
	f, derr, p := decodeThroughRepo(raw)
	if p != nil || derr != nil {
		r.Failf("golden record %q (release layout) no longer decodes: err=%v panic=%v", g.name, derr, p)
		return r
	}
	if f != g.file {
		r.Failf("golden record %q decodes to %+v, the release layout says %+v", g.name, f, g.file)
		return r
	}
	kv := newFakeKV()
	if err := fileRepo.New(kv).Set(context.Background(), g.file); err != nil {
		r.Failf("golden record %q: Set failed: %v", g.name, err)
		return r
	}
	got, ok := kv.m["file/"+g.file.ContentId]
	if !ok || !bytes.Equal(got, raw) {
		r.Failf("golden record %q is now written as %x (key present: %v), release layout is %x", g.name, got, ok, raw)
	}
	return r
}

func TestC19Golden(t *testing.T) {
	const prop, part = "C19", "golden"
	t.Cleanup(func() { ev.Flush(prop, part) })
	if ev.Replaying() {
		ev.Check(t, prop, part, func(*rapid.T) c19GoldenCase { return c19GoldenCase{} }, execC19Golden)
		return
	}
	for i := range goldens {
		c := c19GoldenCase{Index: i}
		if !ev.Direct(t, prop, part, c, execC19Golden(c)) {
			return
		}
	}
}

// ---- native fuzz target (thorough tier only): same oracle as part 2 plus re-encode ----------

func FuzzC19Decode(f *testing.F) {
	for _, g := range goldens {
		b, _ := hex.DecodeString(g.hex)
		f.Add(b)
	}
	f.Add([]byte{})
	f.Add(bytes.Repeat([]byte{0xff}, 39))
	f.Add(bytes.Repeat([]byte{0x00}, 40))
	f.Fuzz(func(t *testing.T, b []byte) {
		c := c19BytesCase{Hex: hex.EncodeToString(b)}
		r := execC19Bytes(c)
		if r.Fail != "" {
			t.Fatalf("C19: %s", r.Fail)
		}
		if want, ok := refDecode(b); ok {
			kv := newFakeKV()
			if err := fileRepo.New(kv).Set(context.Background(), want); err != nil {
				t.Fatalf("C19: re-encoding decoded record failed: %v", err)
			}
			if got := kv.m["file/"+want.ContentId]; !bytes.Equal(got, b) {
				t.Fatalf("C19: decode/encode is not the identity on %x: %x", b, got)
			}
		}
	})
}
