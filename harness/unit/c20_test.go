package unit

import (
	"errors"
	"fmt"
	"os"
	"path/filepath"
	"reflect"
	"runtime"
	"strconv"
	"strings"
	"testing"
	"time"

	"pgregory.net/rapid"

	"github.com/glebziz/fs_db"
	"github.com/glebziz/fs_db/config"
	"github.com/glebziz/fs_db/internal/verifh/ev"
)

// The seven settings. kind: int | uint | str | list | dur.
type setting struct {
	name, env, kind string
	yamlPath        [2]string // section ("" = top level), key
}

var settings = []setting{
	{"port", "PORT", "int", [2]string{"", "port"}},
	{"dbPath", "DB_PATH", "str", [2]string{"storage", "dbPath"}},
	{"maxDirCount", "DIR_COUNT", "uint", [2]string{"storage", "maxDirCount"}},
	{"rootDirs", "ROOT_DIRS", "list", [2]string{"storage", "rootDirs"}},
	{"gcPeriod", "GC_PERIOD", "dur", [2]string{"storage", "gcPeriod"}},
	{"numWorkers", "NUM_WORKERS", "int", [2]string{"wPool", "numWorkers"}},
	{"sendDuration", "SEND_DURATION", "dur", [2]string{"wPool", "sendDuration"}},
}

// states of one setting
const (
	stAbsent        = "absent"
	stFile          = "file"
	stEnv           = "env"
	stBoth          = "both"
	stEnvEmpty      = "env-empty"      // env set to "", nothing in file
	stEnvEmptyFile  = "env-empty+file" // env set to "", value in file
	stEnvBad        = "env-malformed"  // env malformed, nothing in file
	stEnvBadFile    = "env-malformed+file"
	stFileBad       = "file-malformed" // malformed in file, env unset
	stFileBadEnvSet = "file-malformed+env"
)

func statesFor(kind string) []string {
	s := []string{stAbsent, stFile, stEnv, stBoth, stEnvEmpty, stEnvEmptyFile}
	if kind == "int" || kind == "uint" || kind == "dur" {
		s = append(s, stEnvBad, stEnvBadFile, stFileBad, stFileBadEnvSet)
	}
	return s
}

type c20Setting struct {
	State   string `json:"state"`
	FileVal string `json:"file,omitempty"` // textual value as rendered into YAML / env
	EnvVal  string `json:"env,omitempty"`
}

type c20Case struct {
	NoFile   bool         `json:"no_file"` // call ParseConfig("") (only meaningful when no setting uses the file)
	Settings []c20Setting `json:"settings"`
}

var (
	goodInts  = []string{"0", "1", "80", "8888", "65535", "123456"}
	goodUints = []string{"0", "1", "99", "100", "101", "1000000", "18446744073709551615"}
	goodDurs  = []string{"1m", "250ms", "2h45m", "0s", "1.5s", "1m0s", "90s", "1us"}
	// (paths are taken verbatim: characters that mean something to shells, format strings, YAML or glob
	// patterns are ordinary characters of a path)
	goodStrs  = []string{"db", "/var/lib/fsdb", "./rel/path", "a_b-c.d", "x", "/srv/$meta/db", "/mnt/${pool}/x y", "$HOME", "a#b: c", "100%d", "~/db*[1]"}
	goodLists = [][]string{{"r1"}, {"/mnt/a", "/mnt/b"}, {"./s1", "./s2", "./s3"}, {"only"}, {"/mnt/vol$1/storage", "/mnt/${pool}/storage"}, {"a b", "c#d", "e: f"}}
	badNum    = []string{"abc", "12abc", "--3", "0x", "1e", "ten"}
	badUint   = []string{"abc", "-5", "12abc", "-1"}
	// environment values are plain decimal numbers: leading zeros are still decimal, a hexadecimal
	// literal is not a number of that form
	goodIntsEnvOnly  = []string{"007", "08080", "+5"}
	goodUintsEnvOnly = []string{"0500", "000250", "099", "00"}
	badNumEnvOnly    = []string{"0x1F", "0b11", "1_000"}
	badDur           = []string{"abc", "5 parsecs", "1mm", "--1s", "ms"}
)

func genValue(t *rapid.T, kind string, bad bool, label string) string {
	pick := func(xs []string) string { return rapid.SampledFrom(xs).Draw(t, label) }
	env := label == "env"
	switch kind {
	case "int":
		if bad {
			if env {
				return pick(append(append([]string{}, badNum...), badNumEnvOnly...))
			}
			return pick(badNum)
		}
		if env {
			return pick(append(append([]string{}, goodInts...), goodIntsEnvOnly...))
		}
		return pick(goodInts)
	case "uint":
		if bad {
			if env {
				return pick(append(append([]string{}, badUint...), badNumEnvOnly...))
			}
			return pick(badUint)
		}
		if env {
			return pick(append(append([]string{}, goodUints...), goodUintsEnvOnly...))
		}
		return pick(goodUints)
	case "dur":
		if bad {
			return pick(badDur)
		}
		return pick(goodDurs)
	case "str":
		return pick(goodStrs)
	default:
		return strings.Join(rapid.SampledFrom(goodLists).Draw(t, label), ";")
	}
}

func fillValues(t *rapid.T, kind, state string) c20Setting {
	s := c20Setting{State: state}
	switch state {
	case stFile, stEnvEmptyFile:
		s.FileVal = genValue(t, kind, false, "file")
	case stEnv:
		s.EnvVal = genValue(t, kind, false, "env")
	case stBoth:
		s.FileVal = genValue(t, kind, false, "file")
		s.EnvVal = genValue(t, kind, false, "env")
	case stEnvBad:
		s.EnvVal = genValue(t, kind, true, "env")
	case stEnvBadFile:
		s.EnvVal = genValue(t, kind, true, "env")
		s.FileVal = genValue(t, kind, false, "file")
	case stFileBad:
		s.FileVal = genValue(t, kind, true, "file")
	case stFileBadEnvSet:
		s.FileVal = genValue(t, kind, true, "file")
		s.EnvVal = genValue(t, kind, false, "env")
	}
	return s
}

func genC20(t *rapid.T) c20Case {
	var c c20Case
	usesFile := false
	// most cases: malformed values are rare so that the precedence logic is what gets exercised
	badBias := rapid.IntRange(0, 3).Draw(t, "badBias")
	for _, st := range settings {
		states := statesFor(st.kind)
		if badBias > 0 {
			states = states[:6]
		}
		state := rapid.SampledFrom(states).Draw(t, st.name+"State")
		s := fillValues(t, st.kind, state)
		if s.FileVal != "" {
			usesFile = true
		}
		c.Settings = append(c.Settings, s)
	}
	if !usesFile {
		c.NoFile = rapid.Bool().Draw(t, "noFile")
	}
	return c
}

func yamlScalar(kind, v string) string {
	switch kind {
	case "str":
		return strconv.Quote(v)
	case "list":
		var b strings.Builder
		for _, e := range strings.Split(v, ";") {
			b.WriteString("\n    - " + strconv.Quote(e))
		}
		return b.String()
	default:
		return v
	}
}

func renderYAML(c c20Case) string {
	sections := map[string][]string{}
	order := []string{"", "storage", "wPool"}
	for i, st := range settings {
		s := c.Settings[i]
		if s.FileVal == "" {
			continue
		}
		sec := st.yamlPath[0]
		indent := ""
		if sec != "" {
			indent = "  "
		}
		sections[sec] = append(sections[sec], fmt.Sprintf("%s%s: %s", indent, st.yamlPath[1], yamlScalar(st.kind, s.FileVal)))
	}
	var b strings.Builder
	for _, sec := range order {
		lines := sections[sec]
		if len(lines) == 0 {
			continue
		}
		if sec != "" {
			b.WriteString(sec + ":\n")
		}
		for _, l := range lines {
			b.WriteString(l + "\n")
		}
	}
	return b.String()
}

func parseVal(kind, v string) any {
	switch kind {
	case "int":
		n, err := strconv.Atoi(v)
		if err != nil {
			panic("harness: bad good int " + v)
		}
		return n
	case "uint":
		n, err := strconv.ParseUint(v, 10, 64)
		if err != nil {
			panic("harness: bad good uint " + v)
		}
		return n
	case "dur":
		d, err := time.ParseDuration(v)
		if err != nil {
			panic("harness: bad good duration " + v)
		}
		return d
	case "str":
		return v
	default:
		return strings.Split(v, ";")
	}
}

func defaultOf(name string) any {
	switch name {
	case "port":
		return 8888
	case "dbPath":
		return "test_db"
	case "maxDirCount":
		return uint64(1_000_000)
	case "rootDirs":
		return []string{"./testStorage"}
	case "gcPeriod":
		return time.Minute
	case "numWorkers":
		return runtime.GOMAXPROCS(0)
	default:
		return time.Millisecond
	}
}

func actualOf(cfg config.Config, name string) any {
	switch name {
	case "port":
		return cfg.Port
	case "dbPath":
		return cfg.Storage.DbPath
	case "maxDirCount":
		return cfg.Storage.MaxDirCount
	case "rootDirs":
		return cfg.Storage.RootDirs
	case "gcPeriod":
		return cfg.Storage.GCPeriod
	case "numWorkers":
		return cfg.WPool.NumWorkers
	default:
		return cfg.WPool.SendDuration
	}
}

var c20Dir string

func execC20(c c20Case) *ev.Result {
	r := &ev.Result{}
	if len(c.Settings) != len(settings) {
		r.Failf("INFRA: malformed case")
		return r
	}
	// environment: process-global, cases run strictly one at a time in this process
	for i, st := range settings {
		s := c.Settings[i]
		switch s.State {
		case stEnv, stBoth, stEnvBad, stEnvBadFile, stFileBadEnvSet:
			os.Setenv(st.env, s.EnvVal)
		case stEnvEmpty, stEnvEmptyFile:
			os.Setenv(st.env, "")
		default:
			os.Unsetenv(st.env)
		}
	}
	defer func() {
		for _, st := range settings {
			os.Unsetenv(st.env)
		}
	}()
	confFile := ""
	if !c.NoFile {
		if c20Dir == "" {
			d, err := os.MkdirTemp(os.Getenv("VERIF_DB_ROOT"), "c20-")
			if err != nil {
				panic(err)
			}
			c20Dir = d
		}
		confFile = filepath.Join(c20Dir, "config.yaml")
		if err := os.WriteFile(confFile, []byte(renderYAML(c)), 0o644); err != nil {
			panic(err)
		}
	}
	cfg, err := config.ParseConfig(confFile)

	// ---- oracle ----
	mustErr, mayErr := false, false
	states := map[string]bool{}
	for i := range settings {
		s := c.Settings[i]
		states[s.State] = true
		switch s.State {
		case stEnvBad, stEnvBadFile, stFileBad:
			mustErr = true // a malformed value sits in the position that is used
		case stFileBadEnvSet:
			// the malformed file value is overridden by a good environment value: the statement
			// allows both an error ("malformed value is reported") and the environment value
			mayErr = true
		}
	}
	r.NonTrivial = len(states) >= 2 && (states[stBoth] || states[stEnvEmptyFile] || states[stEnvBadFile] || states[stFileBadEnvSet])
	if mustErr {
		r.Class("expect-error")
	} else if mayErr {
		r.Class("error-or-env")
	} else {
		r.Class("expect-values")
	}
	if mustErr {
		if err == nil {
			r.Failf("a malformed value in a used position was accepted silently; effective config %+v\nfile:\n%s", cfg, renderYAML(c))
		}
		return r
	}
	if err != nil {
		if mayErr {
			return r
		}
		r.Failf("well-formed configuration rejected: %v\nfile:\n%s", err, renderYAML(c))
		return r
	}
	for i, st := range settings {
		s := c.Settings[i]
		var want any
		switch s.State {
		case stEnv, stBoth, stFileBadEnvSet:
			want = parseVal(st.kind, s.EnvVal)
		case stFile, stEnvEmptyFile:
			want = parseVal(st.kind, s.FileVal)
		default:
			want = defaultOf(st.name)
		}
		if got := actualOf(cfg, st.name); !reflect.DeepEqual(got, want) {
			r.Failf("setting %s (state %s, file %q, env %q): effective value %v, want %v\nfile:\n%s", st.name, s.State, s.FileVal, s.EnvVal, got, want, renderYAML(c))
			return r
		}
	}
	return r
}

func TestC20Parse(t *testing.T) { ev.Check(t, "C20", "parse", genC20, execC20) }

// All combinations of states over the seven settings, one fixed value per state (thorough),
// or all pairs of (setting, state) x (setting, state) with the rest absent (quick).
func TestC20States(t *testing.T) {
	const prop, part = "C20", "states"
	t.Cleanup(func() { ev.Flush(prop, part) })
	if ev.Replaying() {
		ev.Check(t, prop, part, func(*rapid.T) c20Case { return c20Case{} }, execC20)
		return
	}
	fixed := func(kind, state string) c20Setting {
		s := c20Setting{State: state}
		good := map[string][2]string{"int": {"4242", "17"}, "uint": {"123", "456"}, "dur": {"3m", "45s"}, "str": {"fromfile", "fromenv"}, "list": {"f1;f2", "e1"}}[kind]
		bad := map[string]string{"int": "abc", "uint": "-5", "dur": "5 parsecs"}[kind]
		switch state {
		case stFile, stEnvEmptyFile:
			s.FileVal = good[0]
		case stEnv:
			s.EnvVal = good[1]
		case stBoth:
			s.FileVal, s.EnvVal = good[0], good[1]
		case stEnvBad:
			s.EnvVal = bad
		case stEnvBadFile:
			s.EnvVal, s.FileVal = bad, good[0]
		case stFileBad:
			s.FileVal = bad
		case stFileBadEnvSet:
			s.FileVal, s.EnvVal = bad, good[1]
		}
		return s
	}
	shard, _ := strconv.Atoi(os.Getenv("VERIF_SHARD"))
	nshards, _ := strconv.Atoi(os.Getenv("VERIF_NSHARDS"))
	if nshards < 1 {
		nshards = 1
	}
	if os.Getenv("VERIF_TIER") == "thorough" {
		idx := make([]int, len(settings))
		n := 0
		for {
			if n%nshards == shard {
				c := c20Case{}
				for i, st := range settings {
					c.Settings = append(c.Settings, fixed(st.kind, statesFor(st.kind)[idx[i]]))
				}
				if !ev.Direct(t, prop, part, c, execC20(c)) {
					return
				}
			}
			n++
			k := 0
			for k < len(idx) {
				idx[k]++
				if idx[k] < len(statesFor(settings[k].kind)) {
					break
				}
				idx[k] = 0
				k++
			}
			if k == len(idx) {
				break
			}
		}
		ev.Exhaustive(prop)
		ev.Note(prop, fmt.Sprintf("part states: all %d combinations of per-setting states enumerated (sharded %d ways)", n, nshards))
		return
	}
	n := 0
	for a := range settings {
		for b := a + 1; b < len(settings); b++ {
			for _, sa := range statesFor(settings[a].kind) {
				for _, sb := range statesFor(settings[b].kind) {
					n++
					if n%nshards != shard {
						continue
					}
					c := c20Case{}
					for i, st := range settings {
						switch i {
						case a:
							c.Settings = append(c.Settings, fixed(st.kind, sa))
						case b:
							c.Settings = append(c.Settings, fixed(st.kind, sb))
						default:
							c.Settings = append(c.Settings, c20Setting{State: stAbsent})
						}
					}
					if !ev.Direct(t, prop, part, c, execC20(c)) {
						return
					}
				}
			}
		}
	}
}

// ---- Storage.Valid ------------------------------------------------------------------------------

type c20ValidCase struct {
	DbPath string   `json:"db_path"`
	Roots  []string `json:"roots"`
	Limit  uint64   `json:"limit"`
}

func execC20Valid(c c20ValidCase) *ev.Result {
	r := &ev.Result{NonTrivial: true}
	s := config.Storage{DbPath: c.DbPath, MaxDirCount: c.Limit, RootDirs: append([]string(nil), c.Roots...), GCPeriod: time.Minute}
	err := s.Valid()
	switch {
	case c.DbPath == "" && len(c.Roots) == 0:
		if !errors.Is(err, fs_db.ErrEmptyDbPath) && !errors.Is(err, fs_db.ErrEmptyRootDirs) {
			r.Failf("Valid(%+v) = %v, want ErrEmptyDbPath or ErrEmptyRootDirs", c, err)
		}
	case c.DbPath == "":
		if !errors.Is(err, fs_db.ErrEmptyDbPath) {
			r.Failf("Valid(%+v) = %v, want ErrEmptyDbPath", c, err)
		}
	case len(c.Roots) == 0:
		if !errors.Is(err, fs_db.ErrEmptyRootDirs) {
			r.Failf("Valid(%+v) = %v, want ErrEmptyRootDirs", c, err)
		}
	default:
		if err != nil {
			r.Failf("Valid(%+v) = %v, want nil", c, err)
			return r
		}
		want := c.Limit
		if want < 100 {
			want = 100
		}
		if s.MaxDirCount != want {
			r.Failf("Valid(%+v): directory limit became %d, want %d", c, s.MaxDirCount, want)
		}
		if s.DbPath != c.DbPath || strings.Join(s.RootDirs, "\x00") != strings.Join(c.Roots, "\x00") || len(s.RootDirs) != len(c.Roots) || s.GCPeriod != time.Minute {
			r.Failf("Valid(%+v) changed unrelated settings: %+v", c, s)
		}
	}
	return r
}

func TestC20Valid(t *testing.T) {
	const prop, part = "C20", "valid"
	if ev.Replaying() {
		ev.Check(t, prop, part, func(*rapid.T) c20ValidCase { return c20ValidCase{} }, execC20Valid)
		return
	}
	limits := []uint64{0, 1, 2, 50, 98, 99, 100, 101, 102, 1000, 1_000_000, 1<<63 - 1, 1 << 63, 1<<64 - 1}
	for _, p := range []string{"", "db", "/abs/db"} {
		for nroots := 0; nroots <= 3; nroots++ {
			roots := []string{"r1", "r2", "r3"}[:nroots]
			for _, l := range limits {
				c := c20ValidCase{DbPath: p, Roots: roots, Limit: l}
				if !ev.Direct(t, prop, part, c, execC20Valid(c)) {
					return
				}
			}
		}
	}
	ev.Check(t, prop, part, func(rt *rapid.T) c20ValidCase {
		return c20ValidCase{
			DbPath: rapid.SampledFrom([]string{"", "x", "a/b"}).Draw(rt, "p"),
			Roots:  rapid.SliceOfN(rapid.SampledFrom([]string{"r", "s", ""}), 0, 3).Draw(rt, "roots"),
			Limit:  rapid.OneOf(rapid.Uint64Range(0, 200), rapid.Uint64()).Draw(rt, "limit"),
		}
	}, execC20Valid)
}
