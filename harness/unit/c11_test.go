package unit

import (
	"encoding/hex"
	"errors"
	"fmt"
	"strings"
	"testing"

	spb "google.golang.org/genproto/googleapis/rpc/status"
	"google.golang.org/grpc/codes"
	"google.golang.org/grpc/status"
	"google.golang.org/protobuf/proto"
	"pgregory.net/rapid"

	"github.com/glebziz/fs_db"
	adapter "github.com/glebziz/fs_db/internal/adapter/errors"
	"github.com/glebziz/fs_db/internal/verifh/ev"
)

// C11, pure part: an error value built from one exported sentinel under arbitrary wrapping goes
// through the server-side adapter (Error), across the wire (status -> protobuf bytes -> status) and
// through the client-side adapter (ClientError); its class, judged by errors.Is, must survive.

var wireSentinels = []error{
	fs_db.ErrNoFreeSpace, fs_db.ErrNotFound, fs_db.ErrEmptyKey, fs_db.ErrHeaderNotFound,
	fs_db.ErrTxNotFound, fs_db.ErrTxAlreadyExists, fs_db.ErrTxSerialization, fs_db.ErrUnknown,
}

var allSentinels = append(append([]error{}, wireSentinels...), fs_db.ErrEmptyDbPath, fs_db.ErrEmptyRootDirs)

type c11ErrCase struct {
	Sentinel int      `json:"sentinel"` // index into wireSentinels, -1 = a foreign error only
	Wraps    []string `json:"wraps"`    // innermost first: "fmt:<text>" | "join-before" | "join-after" | "struct"
}

type structErr struct{ inner error }

func (s structErr) Error() string { return "struct(" + s.inner.Error() + ")" }
func (s structErr) Unwrap() error { return s.inner }

func genC11Err(t *rapid.T) c11ErrCase {
	c := c11ErrCase{Sentinel: rapid.IntRange(-1, len(wireSentinels)-1).Draw(t, "sentinel")}
	n := rapid.IntRange(0, 6).Draw(t, "depth")
	for i := 0; i < n; i++ {
		k := rapid.SampledFrom([]string{"fmt", "fmt", "join-before", "join-after", "struct"}).Draw(t, "wrap")
		if k == "fmt" {
			switch rapid.IntRange(0, 5).Draw(t, "textKind") {
			case 0:
				// any bytes: a wrapping text may quote a path or a piece of a key, and nothing says it is valid UTF-8
				k = "fmthex:" + hex.EncodeToString(rapid.SliceOfN(rapid.Byte(), 1, 12).Draw(t, "textBytes"))
			case 1:
				k = "fmthex:" + hex.EncodeToString([]byte(rapid.SampledFrom([]string{"\xff", "caf\xc3", "/srv/d\xe9p\xf4t", "\xf0\x9f\x98", "a\x00b", "\xed\xa0\x80"}).Draw(t, "hostileText")))
			case 2:
				k = "fmthex:" + hex.EncodeToString([]byte(rapid.String().Draw(t, "anyText")))
			default:
				k = "fmt:" + rapid.StringMatching(`[a-z %:]{0,12}`).Draw(t, "text")
			}
		}
		c.Wraps = append(c.Wraps, k)
	}
	return c
}

func buildErr(c c11ErrCase) error {
	var err error = errors.New("some foreign failure")
	if c.Sentinel >= 0 {
		err = wireSentinels[c.Sentinel%len(wireSentinels)]
	}
	for _, w := range c.Wraps {
		switch {
		case w == "join-before":
			err = errors.Join(errors.New("unrelated"), err)
		case w == "join-after":
			err = errors.Join(err, errors.New("unrelated"))
		case w == "struct":
			err = structErr{err}
		case strings.HasPrefix(w, "fmthex:"):
			b, _ := hex.DecodeString(w[7:])
			err = fmt.Errorf("%s: %w", b, err)
		default:
			err = fmt.Errorf("%s: %w", w[4:], err)
		}
	}
	return err
}

func classOf(err error) string {
	for _, s := range allSentinels {
		if errors.Is(err, s) {
			return s.Error()
		}
	}
	return "other"
}

// overTheWire mimics what gRPC does with a handler's error: status -> protobuf bytes -> status.
func overTheWire(err error) error {
	st, _ := status.FromError(err)
	b, merr := proto.Marshal(st.Proto())
	if merr != nil {
		// what grpc-go's transport does when the status cannot be marshalled (a string field that is not
		// valid UTF-8): it logs, leaves the details out and sends code and message alone
		return status.New(st.Code(), st.Message()).Err()
	}
	var p spb.Status
	if uerr := proto.Unmarshal(b, &p); uerr != nil {
		panic(uerr)
	}
	return status.FromProto(&p).Err()
}

func execC11Err(c c11ErrCase) *ev.Result {
	r := &ev.Result{NonTrivial: len(c.Wraps) >= 2}
	e := buildErr(c)
	want := classOf(e)
	if c.Sentinel < 0 {
		want = fs_db.ErrUnknown.Error() // anything that is not a sentinel reaches the client as ErrUnknown
	}
	srv := adapter.Error(e)
	if status.Code(srv) == codes.OK {
		r.Failf("server adapter turned %q into an OK status", e)
		return r
	}
	got := classOf(adapter.ClientError(overTheWire(srv)))
	if got != want {
		r.Failf("error %q (class %s) reaches the client as class %s (status code %s)", e, want, got, status.Code(srv))
	}
	r.Class("class-" + want)
	return r
}

func TestC11Errors(t *testing.T) { ev.Check(t, "C11", "errors", genC11Err, execC11Err) }
