// Package ev is the glue between a property (generator + executable oracle) and
// the driver: it runs the property under rapid (or replays one saved case),
// measures what was generated, and leaves machine-readable files behind.
//
// Environment (all set by /verif/check):
//
//	VERIF_OUT     directory for ev-*.json / hash-*.bin / fail-*.json
//	VERIF_SHARD   shard number (part of file names)
//	VERIF_REPLAY  path of a saved case: execute exactly that case, bypassing rapid
//	VERIF_KNOWN   path of KNOWN_FINDINGS.jsonl
package ev

import (
	"crypto/sha256"
	"encoding/binary"
	"encoding/json"
	"fmt"
	"os"
	"path/filepath"
	"sort"
	"strings"
	"sync"
	"testing"

	"pgregory.net/rapid"
)

// Result is what executing one generated case against the oracle yields.
type Result struct {
	// Fail is non-empty iff the oracle rejected the execution.
	Fail string
	// Known is the id of the known finding whose signature explains Fail; the case is
	// then counted but not reported (only set by classifiers, only for listed findings).
	Known string
	// KnownHits lists known findings that were observed and excused while the case continued.
	KnownHits []string
	// NonTrivial says whether the case satisfies the property's stated non-triviality rule.
	NonTrivial bool
	// Classes are labels for the distribution report.
	Classes []string
	// Counters are summed over all cases (e.g. number of schedules explored inside a case).
	Counters map[string]int64
	// ReplayCase, when set, is saved instead of the generated case when the case fails (used by
	// enumerating executors to pin the failing element of the enumeration).
	ReplayCase any `json:"-"`
	// Trace is an optional human-readable account of the execution, saved with failures.
	Trace []string
}

func (r *Result) Class(names ...string) { r.Classes = append(r.Classes, names...) }
func (r *Result) Count(name string, n int64) {
	if r.Counters == nil {
		r.Counters = map[string]int64{}
	}
	r.Counters[name] += n
}
func (r *Result) Failf(format string, a ...any) {
	if r.Fail == "" {
		r.Fail = squeeze(fmt.Sprintf(format, a...))
	}
}

// squeeze shortens runs of one repeated character (keys of many kilobytes in messages).
func squeeze(s string) string {
	if len(s) < 2000 {
		return s
	}
	var b strings.Builder
	rs := []rune(s)
	for i := 0; i < len(rs); {
		j := i
		for j < len(rs) && rs[j] == rs[i] {
			j++
		}
		if j-i > 40 {
			b.WriteString(string(rs[i : i+8]))
			fmt.Fprintf(&b, "...(x%d)", j-i)
		} else {
			b.WriteString(string(rs[i:j]))
		}
		i = j
	}
	out := b.String()
	if len(out) > 20000 {
		out = out[:20000] + "...(message truncated)"
	}
	return out
}
func (r *Result) Logf(format string, a ...any) {
	if len(r.Trace) < 4000 {
		r.Trace = append(r.Trace, fmt.Sprintf(format, a...))
	}
}

type collector struct {
	mu          sync.Mutex
	prop        string
	evals       int64
	nontrivial  int64
	hashes      map[uint64]struct{}
	classes     map[string]int64
	counters    map[string]int64
	knownHits   map[string]int64
	samples     []json.RawMessage
	ntSeen      int64
	failures    int64
	exhaustive  bool
	extraNotes  []string
	maxSampleSz int
}

var (
	colMu sync.Mutex
	cols  = map[string]*collector{}
)

func get(prop string) *collector {
	colMu.Lock()
	defer colMu.Unlock()
	c, ok := cols[prop]
	if !ok {
		c = &collector{prop: prop, hashes: map[uint64]struct{}{}, classes: map[string]int64{},
			counters: map[string]int64{}, knownHits: map[string]int64{}, maxSampleSz: 6000}
		cols[prop] = c
	}
	return c
}

func shard() string {
	s := os.Getenv("VERIF_SHARD")
	if s == "" {
		s = "0"
	}
	return s
}

func outDir() string {
	d := os.Getenv("VERIF_OUT")
	if d == "" {
		d = os.TempDir()
	}
	return d
}

// Record accounts for one executed case. caseVal must be JSON-serialisable.
func Record(prop string, caseVal any, r *Result) {
	c := get(prop)
	b, err := json.Marshal(caseVal)
	if err != nil {
		panic("ev: case not serialisable: " + err.Error())
	}
	c.mu.Lock()
	defer c.mu.Unlock()
	c.evals++
	for _, cl := range r.Classes {
		c.classes[cl]++
	}
	for k, v := range r.Counters {
		c.counters[k] += v
	}
	if r.Known != "" {
		c.knownHits[r.Known]++
	}
	for _, k := range r.KnownHits {
		c.knownHits[k]++
	}
	if r.Fail != "" && r.Known == "" {
		c.failures++
	}
	if r.NonTrivial {
		c.nontrivial++
		h := sha256.Sum256(b)
		k := binary.LittleEndian.Uint64(h[:8])
		if _, dup := c.hashes[k]; !dup {
			c.hashes[k] = struct{}{}
			c.ntSeen++
			// deterministic sparse sampling: 1st, 2nd, 4th, 8th ... distinct non-trivial case
			if c.ntSeen&(c.ntSeen-1) == 0 && len(c.samples) < 12 && len(b) <= c.maxSampleSz {
				c.samples = append(c.samples, json.RawMessage(b))
			}
		}
	}
}

// Note attaches a free-text note to the evidence of prop.
func Note(prop, note string) {
	c := get(prop)
	c.mu.Lock()
	c.extraNotes = append(c.extraNotes, note)
	c.mu.Unlock()
}

// Exhaustive marks that a finite space was enumerated completely by this run.
func Exhaustive(prop string) {
	c := get(prop)
	c.mu.Lock()
	c.exhaustive = true
	c.mu.Unlock()
}

// Flush writes the per-shard evidence files of prop. Call it from t.Cleanup.
func Flush(prop, part string) {
	c := get(prop)
	c.mu.Lock()
	defer c.mu.Unlock()
	dir := outDir()
	_ = os.MkdirAll(dir, 0o755)
	base := fmt.Sprintf("%s-%s-%s", prop, part, shard())
	hs := make([]uint64, 0, len(c.hashes))
	for h := range c.hashes {
		hs = append(hs, h)
	}
	sort.Slice(hs, func(i, j int) bool { return hs[i] < hs[j] })
	hb := make([]byte, 8*len(hs))
	for i, h := range hs {
		binary.LittleEndian.PutUint64(hb[8*i:], h)
	}
	_ = os.WriteFile(filepath.Join(dir, "hash-"+base+".bin"), hb, 0o644)
	out := map[string]any{
		"property":            prop,
		"part":                part,
		"shard":               shard(),
		"evaluations":         c.evals,
		"nontrivial":          c.nontrivial,
		"distinct_nontrivial": len(hs),
		"classes":             c.classes,
		"counters":            c.counters,
		"known_finding_hits":  c.knownHits,
		"samples":             c.samples,
		"failures":            c.failures,
		"exhaustive":          c.exhaustive,
		"notes":               c.extraNotes,
	}
	b, _ := json.MarshalIndent(out, "", " ")
	_ = os.WriteFile(filepath.Join(dir, "ev-"+base+".json"), b, 0o644)
}

type failFile struct {
	Property string          `json:"property"`
	Part     string          `json:"part"`
	Message  string          `json:"message"`
	Case     json.RawMessage `json:"case"`
	Trace    []string        `json:"trace,omitempty"`
}

func dumpFailure(prop, part string, caseVal any, r *Result) string {
	if r.ReplayCase != nil {
		caseVal = r.ReplayCase
	}
	b, _ := json.Marshal(caseVal)
	ff := failFile{Property: prop, Part: part, Message: r.Fail, Case: b, Trace: r.Trace}
	out, _ := json.MarshalIndent(ff, "", " ")
	p := filepath.Join(outDir(), fmt.Sprintf("fail-%s-%s-%s.json", prop, part, shard()))
	_ = os.MkdirAll(outDir(), 0o755)
	_ = os.WriteFile(p, out, 0o644)
	return p
}

// ReplayPath returns the replay file for (prop, part) or "".
func replayCase(prop, part string) (json.RawMessage, bool) {
	p := os.Getenv("VERIF_REPLAY")
	if p == "" {
		return nil, false
	}
	b, err := os.ReadFile(p)
	if err != nil {
		panic("ev: cannot read replay file: " + err.Error())
	}
	var ff failFile
	if err := json.Unmarshal(b, &ff); err != nil {
		panic("ev: bad replay file: " + err.Error())
	}
	if ff.Property != prop || ff.Part != part {
		return nil, false
	}
	return ff.Case, true
}

// Replaying reports whether the process runs in replay mode.
func Replaying() bool { return os.Getenv("VERIF_REPLAY") != "" }

// Check runs one property part: under rapid normally, or on the saved case in replay mode.
// gen must make every random choice through t; exec must be a pure function of the case and
// of the code under test.
func Check[C any](t *testing.T, prop, part string, gen func(*rapid.T) C, exec func(C) *Result) {
	t.Helper()
	t.Cleanup(func() { Flush(prop, part) })
	if Replaying() {
		raw, ok := replayCase(prop, part)
		if !ok {
			t.Skip("replay file is for another property part")
		}
		var c C
		if err := json.Unmarshal(raw, &c); err != nil {
			t.Fatalf("INFRA: cannot decode replay case: %v", err)
		}
		r := exec(c)
		Record(prop, c, r)
		fmt.Printf("REPLAY-RESULT property=%s part=%s fail=%q known=%q hits=%q\n", prop, part, r.Fail, r.Known, strings.Join(r.KnownHits, ","))
		if r.Fail != "" {
			for _, l := range r.Trace {
				fmt.Println("  | " + l)
			}
			if r.Known == "" {
				t.Fatalf("replayed case violates %s: %s", prop, r.Fail)
			}
		}
		return
	}
	rapid.Check(t, func(rt *rapid.T) {
		c := gen(rt)
		r := exec(c)
		Record(prop, c, r)
		if r.Fail != "" && r.Known == "" {
			p := dumpFailure(prop, part, c, r)
			rt.Fatalf("property %s violated: %s (case saved to %s)", prop, r.Fail, p)
		}
	})
}

// Direct records and judges one case outside rapid (enumerations). It returns false and
// saves the case if it fails.
func Direct[C any](t *testing.T, prop, part string, c C, r *Result) bool {
	Record(prop, c, r)
	if r.Fail != "" && r.Known == "" {
		p := dumpFailure(prop, part, c, r)
		t.Errorf("property %s violated: %s (case saved to %s)", prop, r.Fail, p)
		return false
	}
	return true
}

// ---- known findings -------------------------------------------------------------------------

type Finding struct {
	Status   string `json:"status"` // "open" or "fixed"
	Property string `json:"property"`
	ID       string `json:"id"`
	What     string `json:"what"`
	Replay   string `json:"replay"`
	Part     string `json:"part"`
}

var (
	kfOnce sync.Once
	kfOpen map[string]Finding
)

func loadKnown() {
	kfOpen = map[string]Finding{}
	p := os.Getenv("VERIF_KNOWN")
	if p == "" {
		return
	}
	b, err := os.ReadFile(p)
	if err != nil {
		return
	}
	for _, line := range strings.Split(string(b), "\n") {
		line = strings.TrimSpace(line)
		if line == "" || strings.HasPrefix(line, "#") {
			continue
		}
		var f Finding
		if json.Unmarshal([]byte(line), &f) != nil {
			continue
		}
		if f.Status == "open" {
			kfOpen[f.ID] = f
		}
	}
}

// KnownOpen reports whether the known finding id is listed as open (recorded, not repaired).
// Classifiers may only excuse a failure for findings for which this returns true.
func KnownOpen(id string) bool {
	kfOnce.Do(loadKnown)
	_, ok := kfOpen[id]
	return ok
}
