// Package model is the reference model of fs_db's key-value + transaction semantics
// (DESIGN.md section 3). It is deliberately naive: committed versions are never pruned
// (garbage collection is a no-op for readers), everything is a linear scan.
package model

import (
	"fmt"
	"sort"
	"strings"
)

// Isolation levels (numerically equal to fs_db's constants).
const (
	RU  = 0
	RC  = 1
	RR  = 2
	SER = 3
)

// Err is an error class.
type Err string

const (
	OK              Err = "ok"
	ErrNotFound     Err = "ErrNotFound"
	ErrEmptyKey     Err = "ErrEmptyKey"
	ErrTxNotFound   Err = "ErrTxNotFound"
	ErrTxSerialize  Err = "ErrTxSerialization"
	ErrNoFreeSpace  Err = "ErrNoFreeSpace"
	ErrTxExists     Err = "ErrTxAlreadyExists"
	ErrHeader       Err = "ErrHeaderNotFound"
	ErrUnknown      Err = "ErrUnknown"
	ErrOther        Err = "other"
	ErrEmptyDbPath  Err = "ErrEmptyDbPath"
	ErrEmptyRootDir Err = "ErrEmptyRootDirs"
)

// Val is a content descriptor (the bytes are a pure function of it) or a deletion marker.
type Val struct {
	Del  bool   `json:"del,omitempty"`
	Len  int    `json:"len"`
	Seed uint32 `json:"seed"`
}

func (v Val) String() string {
	if v.Del {
		return "<deleted>"
	}
	return fmt.Sprintf("c(len=%d,seed=%d)", v.Len, v.Seed)
}

// Absent is what a read of a key without any visible version yields.
var Absent = Val{Del: true}

type cver struct {
	v   Val
	clk int
}

type wr struct {
	v   Val
	clk int
}

type liveEntry struct {
	zombie bool // written through an ended transaction handle (known finding C13); visible to RU only, may or may not be there
	owner  int  // 0 = committed (main), else tx id
	v      Val
	wclk   int // clock of the original write
	pos    int // position clock in the all-store list (commit moves an entry to the back)
}

type Tx struct {
	ID     int
	Level  int
	Begin  int
	Open   bool
	EndClk int // clock at which the transaction ended (0 while open)
	writes map[string]wr
}

type M struct {
	clock     int
	nextTx    int
	committed map[string][]cver
	live      map[string][]liveEntry
	txs       map[int]*Tx
}

func New() *M {
	return &M{committed: map[string][]cver{}, live: map[string][]liveEntry{}, txs: map[int]*Tx{}}
}

func (m *M) tick() int { m.clock++; return m.clock }

// Clone returns a deep copy.
func (m *M) Clone() *M {
	c := &M{clock: m.clock, nextTx: m.nextTx, committed: map[string][]cver{}, live: map[string][]liveEntry{}, txs: map[int]*Tx{}}
	for k, v := range m.committed {
		c.committed[k] = append([]cver(nil), v...)
	}
	for k, v := range m.live {
		c.live[k] = append([]liveEntry(nil), v...)
	}
	for id, t := range m.txs {
		nt := *t
		nt.writes = map[string]wr{}
		for k, w := range t.writes {
			nt.writes[k] = w
		}
		c.txs[id] = &nt
	}
	return c
}

// Hash is a canonical rendering of the state (for memoisation in the linearizability search).
func (m *M) Hash() string {
	var b strings.Builder
	keys := make([]string, 0, len(m.committed))
	for k := range m.committed {
		keys = append(keys, k)
	}
	sort.Strings(keys)
	fmt.Fprintf(&b, "c%d;", m.clock)
	for _, k := range keys {
		fmt.Fprintf(&b, "%q:", k)
		for _, cv := range m.committed[k] {
			fmt.Fprintf(&b, "%v@%d,", cv.v, cv.clk)
		}
	}
	keys = keys[:0]
	for k := range m.live {
		keys = append(keys, k)
	}
	sort.Strings(keys)
	for _, k := range keys {
		fmt.Fprintf(&b, "L%q:", k)
		for _, le := range m.live[k] {
			fmt.Fprintf(&b, "%d/%v/%d/%d/%v,", le.owner, le.v, le.wclk, le.pos, le.zombie)
		}
	}
	ids := make([]int, 0, len(m.txs))
	for id := range m.txs {
		ids = append(ids, id)
	}
	sort.Ints(ids)
	for _, id := range ids {
		t := m.txs[id]
		fmt.Fprintf(&b, "T%d/%d/%d/%v:", id, t.Level, t.Begin, t.Open)
		ks := make([]string, 0, len(t.writes))
		for k := range t.writes {
			ks = append(ks, k)
		}
		sort.Strings(ks)
		for _, k := range ks {
			fmt.Fprintf(&b, "%q=%v@%d,", k, t.writes[k].v, t.writes[k].clk)
		}
	}
	return b.String()
}

// Begin opens a transaction and returns its id (> 0).
func (m *M) Begin(level int) int {
	if level < 0 || level > 3 {
		level = RC
	}
	m.nextTx++
	id := m.nextTx
	m.txs[id] = &Tx{ID: id, Level: level, Begin: m.tick(), Open: true, writes: map[string]wr{}}
	return id
}

// HasWrite reports whether the transaction has written key.
func (t *Tx) HasWrite(key string) bool { _, ok := t.writes[key]; return ok }

// TxOpen reports whether tx id is open.
func (m *M) TxOpen(id int) bool {
	t, ok := m.txs[id]
	return ok && t.Open
}

func (m *M) Tx(id int) *Tx { return m.txs[id] }

// OpenTxs lists the ids of open transactions in ascending order.
func (m *M) OpenTxs() []int {
	var ids []int
	for id, t := range m.txs {
		if t.Open {
			ids = append(ids, id)
		}
	}
	sort.Ints(ids)
	return ids
}

// EndedTxs lists the ids of ended transactions in ascending order.
func (m *M) EndedTxs() []int {
	var ids []int
	for id, t := range m.txs {
		if !t.Open {
			ids = append(ids, id)
		}
	}
	sort.Ints(ids)
	return ids
}

func (m *M) dropLive(owner int) {
	for k, l := range m.live {
		out := l[:0]
		for _, e := range l {
			if e.owner != owner {
				out = append(out, e)
			}
		}
		m.live[k] = out
	}
}

// Write applies Set (v.Del false) or Delete (v.Del true) by tx (0 = autocommit).
// isSet distinguishes Set (rejects the empty key) from Delete (does not).
func (m *M) Write(tx int, key string, v Val) Err {
	if key == "" && !v.Del {
		return ErrEmptyKey
	}
	if tx == 0 {
		c := m.tick()
		m.committed[key] = append(m.committed[key], cver{v, c})
		m.live[key] = append(m.live[key], liveEntry{owner: 0, v: v, wclk: c, pos: c})
		return OK
	}
	t, ok := m.txs[tx]
	if !ok || !t.Open {
		return ErrTxNotFound
	}
	c := m.tick()
	t.writes[key] = wr{v, c}
	m.live[key] = append(m.live[key], liveEntry{owner: tx, v: v, wclk: c, pos: c})
	return OK
}

func (m *M) latestCommitted(key string) (cver, bool) {
	l := m.committed[key]
	if len(l) == 0 {
		return cver{}, false
	}
	return l[len(l)-1], true
}

func (m *M) committedBefore(key string, clk int) (cver, bool) {
	l := m.committed[key]
	for i := len(l) - 1; i >= 0; i-- {
		if l[i].clk < clk {
			return l[i], true
		}
	}
	return cver{}, false
}

// Read returns the set of values a read of key by tx (0 = autocommit) may return; a value with
// Del set stands for ErrNotFound. More than one candidate is returned only for ReadUncommitted in
// the one situation the statement leaves open (a commit re-sequenced an older write behind a
// later uncommitted one).
func (m *M) Read(tx int, key string) ([]Val, Err) {
	level := RC
	var t *Tx
	if tx != 0 {
		var ok bool
		t, ok = m.txs[tx]
		if !ok || !t.Open {
			return nil, ErrTxNotFound
		}
		level = t.Level
	}
	switch level {
	case RU:
		var out []Val
		add := func(v Val) {
			v = norm(v)
			for _, o := range out {
				if o == v {
					return
				}
			}
			out = append(out, v)
		}
		for _, withZombies := range []bool{false, true} {
			var l []liveEntry
			for _, e := range m.live[key] {
				if !e.zombie || withZombies {
					l = append(l, e)
				}
			}
			if len(l) == 0 {
				add(Absent)
				continue
			}
			byPos, byClk := l[0], l[0]
			for _, e := range l {
				if e.pos >= byPos.pos {
					byPos = e
				}
				if e.wclk >= byClk.wclk {
					byClk = e
				}
			}
			add(byPos.v)
			add(byClk.v)
		}
		return out, OK
	case RC:
		cv, okc := m.latestCommitted(key)
		var own wr
		oko := false
		if t != nil {
			own, oko = t.writes[key]
		}
		switch {
		case oko && (!okc || own.clk > cv.clk):
			return []Val{norm(own.v)}, OK
		case okc:
			return []Val{norm(cv.v)}, OK
		}
		return []Val{Absent}, OK
	default:
		if own, ok := t.writes[key]; ok {
			return []Val{norm(own.v)}, OK
		}
		if cv, ok := m.committedBefore(key, t.Begin); ok {
			return []Val{norm(cv.v)}, OK
		}
		return []Val{Absent}, OK
	}
}

func norm(v Val) Val {
	if v.Del {
		return Absent
	}
	return v
}

// Keys returns the keys a GetKeys by tx must list and the keys it may additionally list.
func (m *M) Keys(tx int) (must, may []string, e Err) {
	if tx != 0 && !m.TxOpen(tx) {
		return nil, nil, ErrTxNotFound
	}
	all := map[string]bool{}
	for k := range m.committed {
		all[k] = true
	}
	for k := range m.live {
		all[k] = true
	}
	for _, t := range m.txs {
		for k := range t.writes {
			all[k] = true
		}
	}
	for k := range all {
		cands, _ := m.Read(tx, k)
		nv, nd := 0, 0
		for _, c := range cands {
			if c.Del {
				nd++
			} else {
				nv++
			}
		}
		switch {
		case nv > 0 && nd == 0:
			must = append(must, k)
		case nv > 0:
			may = append(may, k)
		}
	}
	sort.Strings(must)
	sort.Strings(may)
	return must, may, OK
}

// AllKeys lists every key the model has ever seen.
func (m *M) AllKeys() []string {
	all := map[string]bool{}
	for k := range m.committed {
		all[k] = true
	}
	for k := range m.live {
		all[k] = true
	}
	ks := make([]string, 0, len(all))
	for k := range all {
		ks = append(ks, k)
	}
	sort.Strings(ks)
	return ks
}

// Commit ends tx. Snapshot levels fail with ErrTxSerialization iff a written key has a committed
// version newer than the transaction's begin.
func (m *M) Commit(tx int) Err {
	t, ok := m.txs[tx]
	if tx == 0 || !ok || !t.Open {
		return ErrTxNotFound
	}
	t.Open = false
	t.EndClk = m.tick()
	conflict := false
	if t.Level == RR || t.Level == SER {
		for k := range t.writes {
			if cv, ok := m.latestCommitted(k); ok && cv.clk > t.Begin {
				conflict = true
			}
		}
	}
	m.dropLive(tx)
	if conflict {
		t.writes = map[string]wr{}
		return ErrTxSerialize
	}
	if len(t.writes) == 0 {
		return OK
	}
	c := m.tick()
	for k, w := range t.writes {
		m.committed[k] = append(m.committed[k], cver{w.v, c})
		m.live[k] = append(m.live[k], liveEntry{owner: 0, v: w.v, wclk: w.clk, pos: c})
	}
	return OK
}

// WouldConflict reports whether Commit(tx) would fail with a serialization error now.
func (m *M) WouldConflict(tx int) (conflictKeys, writtenKeys int) {
	t, ok := m.txs[tx]
	if !ok || !t.Open {
		return 0, 0
	}
	for k := range t.writes {
		writtenKeys++
		if t.Level == RR || t.Level == SER {
			if cv, ok := m.latestCommitted(k); ok && cv.clk > t.Begin {
				conflictKeys++
			}
		}
	}
	return
}

// Rollback ends tx and discards its writes; on an ended/unknown transaction it is a no-op.
func (m *M) Rollback(tx int) Err {
	t, ok := m.txs[tx]
	if tx == 0 || !ok || !t.Open {
		return OK
	}
	t.Open = false
	t.EndClk = m.tick()
	t.writes = map[string]wr{}
	m.dropLive(tx)
	return OK
}

// ZombieWrite records a write that was accepted through an ended transaction handle (known
// finding C13): ReadUncommitted readers may or may not see it until the next reopen.
func (m *M) ZombieWrite(tx int, key string, v Val) {
	c := m.tick()
	m.live[key] = append(m.live[key], liveEntry{zombie: true, owner: -tx - 1, v: v, wclk: c, pos: c})
}

// NewerThanBegin returns, for open transaction tx, the largest number of versions of one key
// committed after the transaction began.
func (m *M) NewerThanBegin(tx int) int {
	t, ok := m.txs[tx]
	if !ok || !t.Open {
		return 0
	}
	best := 0
	for _, l := range m.committed {
		n := 0
		for _, cv := range l {
			if cv.clk > t.Begin {
				n++
			}
		}
		if n > best {
			best = n
		}
	}
	return best
}

// Reopen models Close+Open: open transactions vanish, the committed state stays.
func (m *M) Reopen() {
	for k, l := range m.live {
		out := l[:0]
		for _, e := range l {
			if !e.zombie {
				out = append(out, e)
			}
		}
		m.live[k] = out
	}
	for id, t := range m.txs {
		if t.Open {
			t.Open = false
			t.EndClk = m.tick()
			t.writes = map[string]wr{}
			m.dropLive(id)
		}
	}
}

// CommittedState returns the latest committed value per key (deleted keys omitted).
func (m *M) CommittedState() map[string]Val {
	out := map[string]Val{}
	for k := range m.committed {
		if cv, ok := m.latestCommitted(k); ok && !cv.v.Del {
			out[k] = cv.v
		}
	}
	return out
}

// VersionCount returns the number of committed versions of key.
func (m *M) VersionCount(key string) int { return len(m.committed[key]) }

// Bytes materialises a content descriptor: a pure function of (Len, Seed) whose output
// contains every byte value and no short period (so prefixes, shifts and mixtures differ).
func Bytes(v Val) []byte {
	if v.Del {
		return nil
	}
	b := make([]byte, v.Len)
	x := uint64(v.Seed)*0x9E3779B97F4A7C15 + 0x1234567
	for i := 0; i < len(b); i += 8 {
		x += 0x9E3779B97F4A7C15
		z := x
		z = (z ^ (z >> 30)) * 0xBF58476D1CE4E5B9
		z = (z ^ (z >> 27)) * 0x94D049BB133111EB
		z ^= z >> 31
		for j := 0; j < 8 && i+j < len(b); j++ {
			b[i+j] = byte(z >> (8 * j))
		}
	}
	return b
}
