package seq

import (
	"crypto/sha256"
	"fmt"
	"os"
	"path/filepath"
	"sort"
	"strings"
	"time"

	"github.com/glebziz/fs_db/internal/verifh/model"
)

// Tree is a snapshot of the storage roots.
type Tree struct {
	Dirs   map[string]int      // <root>/<uuid> -> number of entries
	Hashes map[[32]byte]int    // multiset of regular-file contents
	Names  map[[32]byte]string // one path per content hash
	Bad    []string            // structural violations
	NFiles int
}

func isCanonicalUUID(s string) bool {
	if len(s) != 36 {
		return false
	}
	for i, c := range s {
		switch i {
		case 8, 13, 18, 23:
			if c != '-' {
				return false
			}
		default:
			if !(c >= '0' && c <= '9' || c >= 'a' && c <= 'f') {
				return false
			}
		}
	}
	return true
}

// foreignNames are the entries plantForeign puts into every root: not fs_db's, skipped by the walk and
// checked separately for being left alone.
var foreignNames = map[string]bool{"README": true, "lost+found": true, "snapshots-2024": true}

const foreignText = "not a content file\n"

func (w *World) plantForeign() error {
	for _, root := range w.Cfg.Storage.RootDirs {
		root = filepath.Clean(root)
		if err := os.MkdirAll(filepath.Join(root, "lost+found"), 0o755); err != nil {
			return err
		}
		if err := os.MkdirAll(filepath.Join(root, "snapshots-2024"), 0o755); err != nil {
			return err
		}
		if err := os.WriteFile(filepath.Join(root, "README"), []byte(foreignText), 0o644); err != nil {
			return err
		}
		if err := os.WriteFile(filepath.Join(root, "lost+found", "x"), []byte(foreignText), 0o644); err != nil {
			return err
		}
	}
	return nil
}

// checkForeign: the planted entries are exactly as they were.
func (w *World) checkForeign(what string) bool {
	for _, f := range w.foreignIn {
		if b, err := os.ReadFile(f); err != nil || string(b) != foreignText {
			w.R.Failf("%s: %s, a file somebody else put into a content directory, is gone or changed (%v)", what, f, err)
			return false
		}
	}
	if !w.Case.Foreign {
		return true
	}
	for _, root := range w.Cfg.Storage.RootDirs {
		root = filepath.Clean(root)
		for _, f := range []string{filepath.Join(root, "README"), filepath.Join(root, "lost+found", "x")} {
			if b, err := os.ReadFile(f); err != nil || string(b) != foreignText {
				w.R.Failf("%s: %s, which is not fs_db's, is gone or changed (%v)", what, f, err)
				return false
			}
		}
		for d, n := range map[string]int{filepath.Join(root, "lost+found"): 1, filepath.Join(root, "snapshots-2024"): 0} {
			ents, err := os.ReadDir(d)
			if err != nil || len(ents) != n {
				w.R.Failf("%s: directory %s, which is not fs_db's, is gone or holds %d entries instead of %d (%v)", what, d, len(ents), n, err)
				return false
			}
		}
	}
	return true
}

// WalkRoots inspects the configured roots. withContent also hashes every regular file.
func WalkRoots(roots []string, withContent bool) Tree {
	t := Tree{Dirs: map[string]int{}, Hashes: map[[32]byte]int{}, Names: map[[32]byte]string{}}
	for _, root := range roots {
		root = filepath.Clean(root)
		ents, err := os.ReadDir(root)
		if err != nil {
			if os.IsNotExist(err) {
				continue
			}
			t.Bad = append(t.Bad, fmt.Sprintf("cannot read root %s: %v", root, err))
			continue
		}
		for _, e := range ents {
			p := filepath.Join(root, e.Name())
			if foreignNames[e.Name()] {
				continue
			}
			if !e.IsDir() {
				t.Bad = append(t.Bad, fmt.Sprintf("%s: a non-directory directly inside a root", p))
				continue
			}
			if !isCanonicalUUID(e.Name()) {
				t.Bad = append(t.Bad, fmt.Sprintf("%s: directory inside a root is not UUID-named", p))
			}
			sub, err := os.ReadDir(p)
			if err != nil {
				continue // vanished concurrently
			}
			t.Dirs[p] = len(sub)
			for _, f := range sub {
				fp := filepath.Join(p, f.Name())
				if f.IsDir() {
					t.Bad = append(t.Bad, fmt.Sprintf("%s: a directory nested inside a content directory", fp))
					continue
				}
				t.NFiles++
				if withContent {
					b, err := os.ReadFile(fp)
					if err != nil {
						continue // removed concurrently by the cleaner
					}
					h := sha256.Sum256(b)
					t.Hashes[h]++
					t.Names[h] = fp
				}
			}
		}
	}
	sort.Strings(t.Bad)
	return t
}

func (w *World) expectedDisk() map[[32]byte]int {
	exp := map[[32]byte]int{}
	for _, v := range w.M.CommittedState() {
		exp[sha256.Sum256(model.Bytes(v))]++
	}
	return exp
}

func diffDisk(w *World, got Tree, exp map[[32]byte]int) string {
	var extra, missing []string
	for h, n := range got.Hashes {
		if n > exp[h] {
			d := w.byHash[h]
			if d == "" {
				d = "content that was never written completely"
			}
			extra = append(extra, fmt.Sprintf("%dx %s [%s]", n-exp[h], d, filepath.Base(filepath.Dir(got.Names[h]))+"/"+filepath.Base(got.Names[h])))
		}
	}
	for h, n := range exp {
		if got.Hashes[h] < n {
			missing = append(missing, fmt.Sprintf("%dx %s", n-got.Hashes[h], w.byHash[h]))
		}
	}
	if len(extra) == 0 && len(missing) == 0 {
		return ""
	}
	sort.Strings(extra)
	sort.Strings(missing)
	return fmt.Sprintf("files on disk that no key can return: [%s]; live contents missing on disk: [%s]", strings.Join(extra, "; "), strings.Join(missing, "; "))
}

// WaitDisk polls until the roots hold exactly the expected contents. It gives up (returning the
// difference) once the tree has not changed for `stable` - a leaked file never goes away, so the
// verdict does not depend on the bound.
func (w *World) WaitDisk(stable, max time.Duration) string {
	exp := w.expectedDisk()
	start := time.Now()
	lastChange := start
	lastSig := ""
	for {
		t := WalkRoots(w.Cfg.Storage.RootDirs, true)
		d := diffDisk(w, t, exp)
		if d == "" {
			return ""
		}
		if d != lastSig {
			lastSig = d
			lastChange = time.Now()
		}
		if time.Since(lastChange) > stable || time.Since(start) > max {
			return d
		}
		time.Sleep(3 * time.Millisecond)
	}
}
