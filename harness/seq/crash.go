package seq

import (
	"bufio"
	"bytes"
	"crypto/sha256"
	"encoding/base64"
	"encoding/hex"
	"encoding/json"
	"fmt"
	"os"
	"os/exec"
	"path/filepath"
	"sort"
	"strconv"
	"strings"
	"sync/atomic"
	"syscall"
	"time"

	"github.com/glebziz/fs_db/internal/verifh/ev"
	"github.com/glebziz/fs_db/internal/verifh/model"
	"github.com/glebziz/fs_db/internal/verifhook"
)

// ---- child side --------------------------------------------------------------------------------

var mutationKinds = map[string]bool{
	"os.mkdir": true, "os.create": true, "os.remove": true, "file.close": true,
	"badger.set": true, "badger.set.done": true, "badger.delete": true, "badger.delete.done": true,
	"badger.txn": true, "badger.txn.done": true,
	// inside a running Badger transaction nothing is durable yet: a kill here must leave no trace
	"badger.txn.set": true, "badger.txn.delete": true,
}

var mutCount atomic.Int64

func installKillHook(killAt int64) {
	die := func() {
		_ = syscall.Kill(os.Getpid(), syscall.SIGKILL)
		select {}
	}
	verifhook.SetPoint(func(kind, arg string) error {
		if mutationKinds[kind] {
			if mutCount.Add(1) == killAt {
				die()
			}
		}
		return nil
	})
	verifhook.SetWrite(func(path string, size int) (int, error) {
		if mutCount.Add(1) == killAt {
			die()
		}
		return size, nil
	})
}

func say(format string, a ...any) {
	// one write syscall per line: whatever was written before the SIGKILL reaches the parent
	os.Stdout.WriteString(fmt.Sprintf(format, a...) + "\n")
}

func waitQuiet() {
	last := mutCount.Load()
	quiet := time.Now()
	for time.Since(quiet) < 60*time.Millisecond {
		time.Sleep(5 * time.Millisecond)
		if n := mutCount.Load(); n != last {
			last = n
			quiet = time.Now()
		}
	}
}

// ChildMain is entered from TestMain when VERIF_CHILD is set. It never returns.
func ChildMain() {
	mode := os.Getenv("VERIF_CHILD")
	var c Case
	b, err := os.ReadFile(os.Getenv("VERIF_CHILD_CASE"))
	if err == nil {
		err = json.Unmarshal(b, &c)
	}
	if err != nil {
		say("infra cannot read case: %v", err)
		os.Exit(3)
	}
	dir := os.Getenv("VERIF_CHILD_DIR")
	killAt, _ := strconv.ParseInt(os.Getenv("VERIF_CHILD_KILLAT"), 10, 64)
	killAck := -1
	if v, err := strconv.Atoi(os.Getenv("VERIF_CHILD_KILLACK")); err == nil && os.Getenv("VERIF_CHILD_KILLACK") != "" {
		killAck = v
	}
	from, _ := strconv.Atoi(os.Getenv("VERIF_CHILD_FROM"))
	to, _ := strconv.Atoi(os.Getenv("VERIF_CHILD_TO"))
	r := &ev.Result{}
	switch mode {
	case "crash", "recover":
		installKillHook(killAt)
		w, err := OpenWorldAt(c, r, dir)
		if err != nil {
			say("openfail %v", err)
			os.Exit(4)
		}
		say("opened")
		if mode == "crash" {
			for i, op := range c.Ops {
				say("start %d %d", i, mutCount.Load())
				w.commitTooBig = false
				ok := w.Apply(i, op)
				if !ok {
					say("mismatch %d %s", i, strings.ReplaceAll(r.Fail, "\n", " "))
					r.Fail = ""
				}
				if w.commitTooBig {
					say("ackfail %d", i)
				} else {
					say("ack %d", i)
				}
				if killAck == i {
					// the process dies the moment the operation has been acknowledged (nothing of it may still
					// be on its way to the disk)
					_ = syscall.Kill(os.Getpid(), syscall.SIGKILL)
					select {}
				}
			}
		}
		waitQuiet()
		say("total %d", mutCount.Load())
		w.closeDB()
		os.Exit(0)
	case "race":
		var rc RaceCase
		if err := json.Unmarshal(b, &rc); err != nil {
			say("infra cannot read race case: %v", err)
			os.Exit(3)
		}
		runRaceProgram(rc, dir)
		os.Exit(0)
	case "segment":
		// C05: rebuild the model for ops[:from] without touching the database, open other databases
		// first, then run ops[from:to] with full read-back against the existing directory.
		res := runSegment(c, dir, from, to)
		out, _ := json.Marshal(res)
		_ = os.WriteFile(os.Getenv("VERIF_CHILD_OUT"), out, 0o644)
		os.Exit(0)
	}
	say("infra unknown child mode %q", mode)
	os.Exit(3)
}

// OpenWorldAt opens (or creates) the database of case c in an existing directory.
func OpenWorldAt(c Case, r *ev.Result, dir string) (*World, error) {
	if c.Roots < 1 {
		c.Roots = 1
	}
	w := newWorldStruct(c, r)
	w.Dir = dir
	w.setCfg()
	if err := w.open(); err != nil {
		return nil, err
	}
	return w, nil
}

// ---- parent side -------------------------------------------------------------------------------

type childRun struct {
	opened   bool
	acked    int // ops 0..acked-1 acknowledged
	started  int // highest started op index, -1 if none
	total    int64
	killed   bool
	mismatch []string
	raw      string
	startAt  map[int]int64 // step -> number of mutation points seen when the step began
	failed   map[int]bool  // steps whose Commit was acknowledged with the "transaction too big" error
}

func runChild(mode string, c Case, dir string, killAt int64, extraEnv ...string) (childRun, error) {
	cf := filepath.Join(dir, "..", filepath.Base(dir)+".case.json")
	b, _ := json.Marshal(c)
	if err := os.WriteFile(cf, b, 0o644); err != nil {
		return childRun{}, err
	}
	defer os.Remove(cf)
	cmd := exec.Command(os.Args[0], "-test.run", "^TestChildNoop$")
	cmd.Env = append(os.Environ(), "VERIF_CHILD="+mode, "VERIF_CHILD_CASE="+cf, "VERIF_CHILD_DIR="+dir,
		"VERIF_CHILD_KILLAT="+strconv.FormatInt(killAt, 10))
	cmd.Env = append(cmd.Env, extraEnv...)
	var out bytes.Buffer
	cmd.Stdout = &out
	cmd.Stderr = &out
	err := cmd.Run()
	return parseChild(out.String(), err)
}

// parseChild turns what a child said before it ended (or was killed) into a childRun.
func parseChild(raw string, err error) (childRun, error) {
	res := childRun{started: -1, raw: raw}
	sc := bufio.NewScanner(strings.NewReader(raw))
	sc.Buffer(make([]byte, 1<<20), 1<<20)
	for sc.Scan() {
		f := strings.Fields(sc.Text())
		if len(f) == 0 {
			continue
		}
		switch f[0] {
		case "opened":
			res.opened = true
		case "start":
			res.started, _ = strconv.Atoi(f[1])
			if len(f) > 2 {
				if res.startAt == nil {
					res.startAt = map[int]int64{}
				}
				res.startAt[res.started], _ = strconv.ParseInt(f[2], 10, 64)
			}
		case "ack", "ackfail":
			n, _ := strconv.Atoi(f[1])
			res.acked = n + 1
			if f[0] == "ackfail" {
				if res.failed == nil {
					res.failed = map[int]bool{}
				}
				res.failed[n] = true
			}
		case "total":
			res.total, _ = strconv.ParseInt(f[1], 10, 64)
		case "mismatch":
			res.mismatch = append(res.mismatch, sc.Text())
		case "infra", "openfail":
			return res, fmt.Errorf("child: %s", sc.Text())
		}
	}
	if err != nil {
		if ee, ok := err.(*exec.ExitError); ok {
			if ws, ok := ee.Sys().(syscall.WaitStatus); ok && ws.Signaled() && ws.Signal() == syscall.SIGKILL {
				res.killed = true
				return res, nil
			}
		}
		return res, fmt.Errorf("child failed: %v\n%s", err, tail(res.raw, 1500))
	}
	return res, nil
}

func tail(s string, n int) string {
	if len(s) > n {
		return s[len(s)-n:]
	}
	return s
}

// CrashCase is a C04 case: a program plus (for replays) one crash index.
type CrashCase struct {
	Case
	Only     int64 `json:"only,omitempty"`      // replay: crash only at this mutation index
	OnlyAck  int   `json:"only_ack,omitempty"`  // replay: kill right after step OnlyAck-1 was acknowledged (Only is then out of range)
	OnlyRec  int64 `json:"only_rec,omitempty"`  // replay: additionally crash recovery at this index
	RecEvery int   `json:"rec_every,omitempty"` // explore crashes inside recovery for every k-th crash point (0 = never)
	Debris   bool  `json:"debris,omitempty"`    // replay: only the "next process died while Badger created its memtable file" state of crash point Only
	// Bulk: the workload contains a transaction burst (thousands of mutation points while it is filled);
	// crash points are then sampled: Sample points inside every Commit step plus Sample over the rest
	Bulk   bool `json:"bulk,omitempty"`
	Sample int  `json:"sample,omitempty"`
	// OddPath: the database and its roots live under a directory whose name contains glob and format metacharacters
	OddPath bool `json:"odd_path,omitempty"`
	// Timed (part "timed"): the parent kills the child from outside after a delay, so the kill lands anywhere -
	// inside a Badger call, inside a file write, between two instructions of fs_db - not only at hook points.
	// KillAtPermille are the delays, in thousandths of the duration of the uncrashed run (measured from the
	// moment the child has opened the database).
	Timed          bool  `json:"timed,omitempty"`
	KillAtPermille []int `json:"kill_at_permille,omitempty"`
	// Snapshot (replay of a timed kill, which cannot be re-enacted): the crashed directory (tar.gz, base64)
	// together with what the child had said; the replay opens a copy and applies the same oracle.
	Snapshot     string `json:"snapshot,omitempty"`
	SnapAcked    int    `json:"snap_acked,omitempty"`
	SnapStarted  int    `json:"snap_started,omitempty"`
	SnapFailed   []int  `json:"snap_failed,omitempty"`
	SnapPermille int    `json:"snap_permille,omitempty"`
	// SnapDir: where the crashed directory lived. fs_db records absolute paths of content files, so the
	// replay restores the snapshot at the same place (and removes it afterwards).
	SnapDir string `json:"snap_dir,omitempty"`
}

// runChildTimed runs the workload in a child and kills it from outside delay after it reported "opened".
func runChildTimed(c Case, dir string, delay time.Duration) (childRun, time.Duration, error) {
	cf := filepath.Join(dir, "..", filepath.Base(dir)+".case.json")
	b, _ := json.Marshal(c)
	if err := os.WriteFile(cf, b, 0o644); err != nil {
		return childRun{}, 0, err
	}
	defer os.Remove(cf)
	cmd := exec.Command(os.Args[0], "-test.run", "^TestChildNoop$")
	cmd.Env = append(os.Environ(), "VERIF_CHILD=crash", "VERIF_CHILD_CASE="+cf, "VERIF_CHILD_DIR="+dir, "VERIF_CHILD_KILLAT=0")
	pr, pw, err := os.Pipe()
	if err != nil {
		return childRun{}, 0, err
	}
	cmd.Stdout = pw
	cmd.Stderr = pw
	if err := cmd.Start(); err != nil {
		pw.Close()
		pr.Close()
		return childRun{}, 0, err
	}
	pw.Close()
	var raw strings.Builder
	var openedAt, endedAt time.Time
	rd := bufio.NewReaderSize(pr, 1<<20)
	var timer *time.Timer
	for {
		line, rerr := rd.ReadString('\n')
		raw.WriteString(line)
		if openedAt.IsZero() && strings.HasPrefix(line, "opened") {
			openedAt = time.Now()
			if delay >= 0 {
				timer = time.AfterFunc(delay, func() { _ = cmd.Process.Kill() })
			}
		}
		if strings.HasPrefix(line, "ack") {
			// the span the delays are scaled to ends a little after the last acknowledgement (the quiet
			// wait that follows would otherwise take most of the kills)
			endedAt = time.Now().Add(8 * time.Millisecond)
		}
		if rerr != nil {
			break
		}
	}
	werr := cmd.Wait()
	pr.Close()
	if timer != nil {
		timer.Stop()
	}
	var dur time.Duration
	if !openedAt.IsZero() && !endedAt.IsZero() {
		dur = endedAt.Sub(openedAt)
	}
	res, perr := parseChild(raw.String(), werr)
	return res, dur, perr
}

func tarDir(dir string) (string, error) {
	out, err := exec.Command("tar", "-C", dir, "--sparse", "-czf", "-", ".").Output()
	if err != nil {
		return "", err
	}
	return base64.StdEncoding.EncodeToString(out), nil
}

func untarDir(b64, dir string) error {
	raw, err := base64.StdEncoding.DecodeString(b64)
	if err != nil {
		return err
	}
	if err := os.MkdirAll(dir, 0o755); err != nil {
		return err
	}
	cmd := exec.Command("tar", "-C", dir, "-xzf", "-")
	cmd.Stdin = bytes.NewReader(raw)
	return cmd.Run()
}

// ExecC04Timed: kills from outside at generated moments of the run.
func ExecC04Timed(cc CrashCase) *ev.Result {
	r := &ev.Result{}
	c := cc.Case
	c.Prof = "c04"
	base := filepath.Join(dbRoot(), fmt.Sprintf("c04t-%d-%d", os.Getpid(), dirCounter.Add(1)))
	if err := os.MkdirAll(base, 0o755); err != nil {
		panic(err)
	}
	defer os.RemoveAll(base)
	if cc.Snapshot != "" {
		// replay: judge the saved crashed directory
		d := cc.SnapDir
		if d == "" || !(strings.HasPrefix(d, "/dev/shm/") || strings.HasPrefix(d, os.TempDir()+"/")) {
			panic("INFRA: replay file names no usable snapshot directory: " + d)
		}
		if _, err := os.Stat(d); err == nil {
			panic("INFRA: the snapshot's directory exists already: " + d)
		}
		top := d
		for filepath.Dir(top) != "/dev/shm" && filepath.Dir(top) != os.TempDir() && len(filepath.Dir(top)) > 1 {
			if _, err := os.Stat(filepath.Dir(top)); err == nil {
				break
			}
			top = filepath.Dir(top)
		}
		defer os.RemoveAll(top) // the topmost directory this replay had to create
		if err := untarDir(cc.Snapshot, d); err != nil {
			panic("INFRA: cannot unpack the snapshot: " + err.Error())
		}
		run := childRun{opened: true, acked: cc.SnapAcked, started: cc.SnapStarted, killed: true, failed: map[int]bool{}}
		for _, i := range cc.SnapFailed {
			run.failed[i] = true
		}
		judgeCrash(c, r, d, run, 0, 0, fmt.Sprintf("killed from outside at %d/1000 of the run (saved directory)", cc.SnapPermille))
		return r
	}
	d0 := filepath.Join(base, "full")
	os.MkdirAll(d0, 0o755)
	full, dur, err := runChildTimed(c, d0, -1)
	if err != nil || full.killed {
		r.Failf("INFRA: uncrashed child run failed: %v", err)
		panic(r.Fail)
	}
	if len(full.mismatch) > 0 {
		r.Failf("uncrashed run disagrees with the reference model: %s", full.mismatch[0])
		return r
	}
	os.RemoveAll(d0)
	interior := 0
	for _, pm := range cc.KillAtPermille {
		d := filepath.Join(base, fmt.Sprintf("t%d-%d", pm, dirCounter.Add(1)))
		os.MkdirAll(d, 0o755)
		run, _, err := runChildTimed(c, d, dur*time.Duration(pm)/1000)
		if err != nil {
			r.Failf("INFRA: child run failed: %v", err)
			panic(r.Fail)
		}
		r.Count("timed_kill_runs", 1)
		if !run.killed {
			os.RemoveAll(d)
			r.Count("timed_kill_too_late", 1)
			continue
		}
		if run.started >= 0 && run.acked < len(c.Ops) {
			interior++
		}
		snap := d + ".snap"
		if err := copyDir(d, snap); err != nil {
			panic(err)
		}
		if !judgeCrash(c, r, d, run, 0, 0, fmt.Sprintf("killed from outside at %d/1000 of the run", pm)) {
			rc := CrashCase{Case: cc.Case, Timed: true, SnapAcked: run.acked, SnapStarted: run.started, SnapPermille: pm, SnapDir: d}
			for i := range run.failed {
				rc.SnapFailed = append(rc.SnapFailed, i)
			}
			if b64, err := tarDir(snap); err == nil && len(b64) < 64<<20 {
				rc.Snapshot = b64
			}
			r.ReplayCase = rc
			return r
		}
		os.RemoveAll(snap)
		os.RemoveAll(d)
	}
	r.NonTrivial = interior > 0
	r.Count("interior_timed_kills", int64(interior))
	return r
}

// addEmptyMemTable puts the crashed directory into the state a process leaves when it is killed inside
// Badger's memtable-file creation (between open(O_CREATE) and the truncate to its size; Badger's
// deletion of a flushed memtable file has the same window between truncate(0) and unlink): a
// zero-length <fid>.mem. Real kills reach it through Badger's background goroutines (the thorough
// tier met it inside recovery); this makes the state a deterministic part of every explored crash point.
func addEmptyMemTable(dbDir string) (string, error) {
	ents, err := os.ReadDir(dbDir)
	if err != nil {
		return "", err
	}
	next := 1
	for _, e := range ents {
		if strings.HasSuffix(e.Name(), ".mem") {
			if n, err := strconv.Atoi(strings.TrimSuffix(e.Name(), ".mem")); err == nil && n >= next {
				next = n + 1
			}
		}
	}
	name := fmt.Sprintf("%05d.mem", next)
	return name, os.WriteFile(filepath.Join(dbDir, name), nil, 0o644)
}

type dbState map[string]string // key -> sha256 of the content (hex); equal bytes compare equal whoever wrote them

func stateOf(w *World) (dbState, string) {
	keys, err := w.DB.GetKeys(w.ctx)
	if err != nil {
		return nil, fmt.Sprintf("GetKeys failed after recovery: %v", err)
	}
	st := dbState{}
	for _, k := range keys {
		b, err := w.DB.Get(w.ctx, k)
		if err != nil {
			return nil, fmt.Sprintf("key %q is listed by GetKeys but Get fails after recovery: %v", k, err)
		}
		st[k] = hashHex(b)
	}
	// keys of the program that are not listed must be ErrNotFound
	for _, k := range w.Case.Keys {
		if _, ok := st[k]; ok {
			continue
		}
		if _, err := w.DB.Get(w.ctx, k); Class(err) != model.ErrNotFound {
			return nil, fmt.Sprintf("key %q is not listed by GetKeys but Get returns %v after recovery", k, err)
		}
	}
	return st, ""
}

func modelState(w *World) dbState {
	st := dbState{}
	for k, v := range w.M.CommittedState() {
		st[k] = hashHex(model.Bytes(v))
	}
	return st
}

func hashHex(b []byte) string {
	h := sha256.Sum256(b)
	return hex.EncodeToString(h[:])
}

// describeHash renders a content hash for messages (the description of SOME write with these bytes).
func (w *World) describeHash(hx string) string {
	var h [32]byte
	if b, err := hex.DecodeString(hx); err == nil && len(b) == 32 {
		copy(h[:], b)
		if d, ok := w.byHash[h]; ok {
			return d
		}
	}
	return "content " + hx[:12] + " matching no complete written content"
}

func sameState(a, b dbState) bool {
	if len(a) != len(b) {
		return false
	}
	for k, v := range a {
		if b[k] != v {
			return false
		}
	}
	return true
}

func fmtState(w *World, s dbState) string {
	var ks []string
	for k := range s {
		ks = append(ks, k)
	}
	sort.Strings(ks)
	var b strings.Builder
	b.WriteString("{")
	for i, k := range ks {
		if i >= 12 {
			fmt.Fprintf(&b, "... and %d more keys", len(ks)-i)
			break
		}
		name := k
		if len(name) > 48 {
			name = fmt.Sprintf("%s...(%d bytes)", name[:32], len(k))
		}
		fmt.Fprintf(&b, "%q: %s; ", name, w.describeHash(s[k]))
	}
	b.WriteString("}")
	return b.String()
}

func copyDir(src, dst string) error {
	return exec.Command("cp", "-a", "--sparse=always", src, dst).Run()
}

// judgeCrash opens the crashed directory and compares with the allowed states.
func judgeCrash(c Case, r *ev.Result, dir string, run childRun, n int64, recAt int64, note ...string) (ok bool) {
	// rebuild the model: acknowledged prefix, and the in-flight op if any
	dry := newWorldStruct(c, &ev.Result{})
	for i := 0; i < run.acked && i < len(c.Ops); i++ {
		op := c.Ops[i]
		if run.failed[i] && op.K == "commit" {
			op.K = "rollback" // acknowledged with an error: the transaction ended without effect
		}
		dry.ApplyDry(i, op)
	}
	allowed := []dbState{modelState(dry)}
	inflight := "none"
	if run.started >= run.acked && run.started < len(c.Ops) {
		op := c.Ops[run.started]
		inflight = fmt.Sprintf("step %d (%s)", run.started, op.K)
		dry.ApplyDry(run.started, op)
		allowed = append(allowed, modelState(dry))
	}
	ctx := fmt.Sprintf("crash at mutation %d (acknowledged steps 0..%d, in flight: %s)", n, run.acked-1, inflight)
	if recAt > 0 {
		ctx += fmt.Sprintf(", recovery crashed at its mutation %d", recAt)
	}
	for _, s := range note {
		ctx += ", " + s
	}
	w, err := OpenWorldAt(c, r, dir)
	if err != nil {
		r.Failf("%s: reopening the database failed: %v", ctx, err)
		return false
	}
	w.byHash = dry.byHash
	got, bad := stateOf(w)
	if bad != "" {
		w.closeDB()
		r.Failf("%s: %s", ctx, bad)
		return false
	}
	match := false
	for _, a := range allowed {
		if sameState(got, a) {
			match = true
		}
	}
	if !match {
		w.closeDB()
		var al []string
		for _, a := range allowed {
			al = append(al, fmtState(w, a))
		}
		r.Failf("%s: recovered state %s is none of the allowed states %s", ctx, fmtState(w, got), strings.Join(al, " or "))
		return false
	}
	// reopening a second time gives the same state
	w.closeDB()
	if err := w.open(); err != nil {
		r.Failf("%s: second reopen failed: %v", ctx, err)
		return false
	}
	got2, bad := stateOf(w)
	w.closeDB()
	if bad != "" {
		r.Failf("%s: after a second reopen: %s", ctx, bad)
		return false
	}
	if !sameState(got, got2) {
		r.Failf("%s: state after the first reopen %s differs from the state after the second %s", ctx, fmtState(w, got), fmtState(w, got2))
		return false
	}
	return true
}

// ExecC04 enumerates every crash index of the program.
func ExecC04(cc CrashCase) *ev.Result {
	r := &ev.Result{}
	c := cc.Case
	c.Prof = "c04"
	name := fmt.Sprintf("c04-%d-%d", os.Getpid(), dirCounter.Add(1))
	if cc.OddPath {
		// a database path with characters that are ordinary in a directory name and special elsewhere
		// (glob patterns, format strings, shells)
		name = fmt.Sprintf("c04 [%d]*?%%s{a,b}-%d", os.Getpid(), dirCounter.Add(1))
	}
	base := filepath.Join(dbRoot(), name)
	if err := os.MkdirAll(base, 0o755); err != nil {
		panic(err)
	}
	defer os.RemoveAll(base)
	// uncrashed run: learn the number of mutation points
	d0 := filepath.Join(base, "full")
	os.MkdirAll(d0, 0o755)
	full, err := runChild("crash", c, d0, 0)
	if err != nil {
		r.Failf("INFRA: uncrashed child run failed: %v", err)
		panic(r.Fail)
	}
	if len(full.mismatch) > 0 {
		r.Failf("uncrashed run disagrees with the reference model: %s", full.mismatch[0])
		return r
	}
	if !judgeCrash(c, r, d0, full, 0, 0) {
		r.Fail = "after a clean run and exit: " + r.Fail
		return r
	}
	M := full.total
	r.Count("mutation_points_full_run", M)
	if len(full.failed) > 0 {
		r.Class("commit-refused-too-big")
	}
	from, to := int64(1), M+2 // a little beyond M: background work interleaves differently run to run
	if cc.Only > 0 {
		from, to = cc.Only, cc.Only
	}
	var points []int64
	if cc.Bulk && cc.Only == 0 {
		k := int64(cc.Sample)
		if k < 2 {
			k = 8
		}
		spread := func(lo, hi int64) { // k points of (lo, hi], ends included
			if hi <= lo {
				return
			}
			for j := int64(0); j <= k; j++ {
				if n := lo + 1 + (hi-lo-1)*j/k; n >= 1 {
					points = append(points, n)
				}
			}
		}
		for i, op := range c.Ops {
			if op.K != "commit" {
				continue
			}
			lo, ok := full.startAt[i]
			hi, ok2 := full.startAt[i+1]
			if !ok2 {
				hi = M
			}
			if ok {
				spread(lo, hi)
				r.Count("bulk_commit_points", hi-lo)
			}
		}
		spread(0, M)
		sort.Slice(points, func(a, b int) bool { return points[a] < points[b] })
		points = slicesCompact(points)
	} else {
		for n := from; n <= to; n++ {
			points = append(points, n)
		}
	}
	interior := 0
	for _, n := range points {
		d := filepath.Join(base, fmt.Sprintf("n%d", n))
		os.MkdirAll(d, 0o755)
		run, err := runChild("crash", c, d, n)
		if err != nil {
			r.Failf("INFRA: child run failed: %v", err)
			panic(r.Fail)
		}
		r.Count("crash_runs", 1)
		if !run.killed {
			os.RemoveAll(d)
			continue // fewer mutation points in this run than n
		}
		if run.acked > 0 && run.acked < len(c.Ops) || run.started >= 0 && run.acked < len(c.Ops) {
			interior++
		}
		doRec := cc.OnlyRec > 0 || cc.Debris || (cc.RecEvery > 0 && int(n)%cc.RecEvery == 0)
		var snap string
		if doRec {
			snap = d + ".snap"
			if err := copyDir(d, snap); err != nil {
				panic(err)
			}
		}
		if !judgeCrash(c, r, d, run, n, 0) {
			r.ReplayCase = CrashCase{Case: cc.Case, Only: n}
			return r
		}
		if doRec && cc.OnlyRec == 0 {
			// the next process dies while Badger creates its memtable file, then recover: same verdict
			d3 := filepath.Join(base, fmt.Sprintf("n%d-mem", n))
			if err := copyDir(snap, d3); err != nil {
				panic(err)
			}
			name, err := addEmptyMemTable(filepath.Join(d3, "db"))
			if err != nil {
				panic(err)
			}
			r.Count("memtable_debris_runs", 1)
			if !judgeCrash(c, r, d3, run, n, 0, "the next process was killed while Badger created its memtable file (left "+name+" empty)") {
				r.ReplayCase = CrashCase{Case: cc.Case, Only: n, Debris: true}
				return r
			}
			os.RemoveAll(d3)
		}
		if doRec && !cc.Debris {
			// crash inside recovery, at every index, then recover cleanly: same verdict function
			rfull, err := runChildOnCopy("recover", c, snap, 0, base)
			if err != nil {
				panic(err)
			}
			rf, rt := int64(1), rfull.total
			if cc.OnlyRec > 0 {
				rf, rt = cc.OnlyRec, cc.OnlyRec
			}
			for m := rf; m <= rt; m++ {
				d2 := filepath.Join(base, fmt.Sprintf("n%d-r%d", n, m))
				if err := copyDir(snap, d2); err != nil {
					panic(err)
				}
				rr, err := runChild("recover", c, d2, m)
				if err != nil {
					panic(err)
				}
				r.Count("recovery_crash_runs", 1)
				if rr.killed || true {
					if !judgeCrash(c, r, d2, run, n, m) {
						r.ReplayCase = CrashCase{Case: cc.Case, Only: n, OnlyRec: m}
						return r
					}
				}
				os.RemoveAll(d2)
			}
			os.RemoveAll(snap)
		}
		os.RemoveAll(d)
	}
	// kills right after an acknowledgement: the operation has returned, so it is in effect whatever is still
	// going on in the background (Badger's write pipeline, the cleaner)
	if cc.Only == 0 || cc.OnlyAck > 0 {
		for i := range c.Ops {
			if cc.OnlyAck > 0 && i != cc.OnlyAck-1 {
				continue
			}
			if cc.Bulk && c.Ops[i].K != "commit" {
				continue
			}
			d := filepath.Join(base, fmt.Sprintf("ack%d", i))
			os.MkdirAll(d, 0o755)
			run, err := runChild("crash", c, d, 0, fmt.Sprintf("VERIF_CHILD_KILLACK=%d", i))
			if err != nil {
				r.Failf("INFRA: child run failed: %v", err)
				panic(r.Fail)
			}
			r.Count("ack_kill_runs", 1)
			if run.killed && !judgeCrash(c, r, d, run, 0, 0, fmt.Sprintf("killed right after step %d was acknowledged", i)) {
				r.ReplayCase = CrashCase{Case: cc.Case, Only: 1 << 40, OnlyAck: i + 1, OddPath: cc.OddPath}
				return r
			}
			os.RemoveAll(d)
		}
	}
	r.NonTrivial = interior > 0
	r.Count("interior_crash_points", int64(interior))
	for _, op := range c.Ops {
		r.Class("op-" + op.K)
	}
	return r
}

func slicesCompact(a []int64) []int64 {
	out := a[:0]
	for i, v := range a {
		if i == 0 || v != a[i-1] {
			out = append(out, v)
		}
	}
	return out
}

func runChildOnCopy(mode string, c Case, snap string, killAt int64, base string) (childRun, error) {
	d := filepath.Join(base, fmt.Sprintf("tmp-%d", dirCounter.Add(1)))
	if err := copyDir(snap, d); err != nil {
		return childRun{}, err
	}
	defer os.RemoveAll(d)
	return runChild(mode, c, d, killAt)
}
