package seq

import (
	"encoding/json"
	"fmt"
	"os"
	"os/exec"
	"path/filepath"
	"strconv"

	"github.com/glebziz/fs_db/internal/verifh/ev"
	"github.com/glebziz/fs_db/internal/verifh/model"
)

// segResult is what a child process reports about one segment of a C05 history.
type segResult struct {
	Fail  string         `json:"fail"`
	Trace []string       `json:"trace"`
	Stats map[string]int `json:"stats"`
}

// openOthers opens n unrelated fresh databases (and writes one key to each) before the database
// under test is opened; they stay open for the rest of the segment.
// shareRoot, when not empty, is a storage root of the database under test that the other databases use as
// their root too (their metadata lives elsewhere): two databases may keep their contents under one root.
func openOthers(n int, base string, shareRoot ...string) (closers []func()) {
	for i := 0; i < n; i++ {
		oc := Case{Prof: "other", Keys: []string{"o"}, Roots: 1, MaxDir: 100}
		ow := newWorldStruct(oc, &ev.Result{})
		ow.Dir = filepath.Join(base, fmt.Sprintf("other-%d-%d", os.Getpid(), dirCounter.Add(1)))
		os.MkdirAll(ow.Dir, 0o755)
		ow.setCfg()
		if len(shareRoot) > 0 && shareRoot[0] != "" {
			ow.Cfg.Storage.RootDirs = []string{shareRoot[0]}
		}
		if err := ow.open(); err != nil {
			panic("harness: cannot open an unrelated database: " + err.Error())
		}
		_ = ow.DB.Set(ow.ctx, "o", []byte("other"))
		closers = append(closers, func() {
			// an explicit Close followed by a deferred one: closing a database twice is harmless, also for
			// the other databases of the process
			db := ow.DB
			ow.closeDB()
			if db != nil && i%2 == 0 {
				_ = db.Close()
			}
			os.RemoveAll(ow.Dir)
		})
	}
	return closers
}

// runSegment executes ops[from:to] of c against the database in dir (which exists if from > 0),
// after rebuilding the model from ops[:from].
func runSegment(c Case, dir string, from, to int) segResult {
	r := &ev.Result{}
	w := newWorldStruct(c, r)
	w.Dir = dir
	w.setCfg()
	for i := 0; i < from; i++ {
		w.ApplyDry(i, c.Ops[i])
	}
	w.M.Reopen() // a new process: nothing of the old one's transactions survives
	share := ""
	if c.ShareRoot {
		share = w.Cfg.Storage.RootDirs[0]
	}
	closers := openOthers(c.Others, filepath.Dir(dir), share)
	defer func() {
		for _, f := range closers {
			f()
		}
	}()
	if err := w.open(); err != nil {
		r.Failf("opening the database in a fresh process failed: %v", err)
		return segResult{Fail: r.Fail, Trace: r.Trace, Stats: w.Stats}
	}
	defer w.closeDB()
	if from > 0 {
		if !w.ReadBack(fmt.Sprintf("read-back right after opening in a fresh process (before step %d)", from)) {
			return segResult{Fail: r.Fail, Trace: r.Trace, Stats: w.Stats}
		}
	}
	for i := from; i < to; i++ {
		if !w.Apply(i, c.Ops[i]) {
			break
		}
		if !w.ReadBack(fmt.Sprintf("read-back after step %d (%s)", i, c.Ops[i].K)) {
			break
		}
	}
	return segResult{Fail: r.Fail, Trace: r.Trace, Stats: w.Stats}
}

// ExecC05 runs a history with reopen (same process) and newproc (fresh process) steps.
func ExecC05(c Case) *ev.Result {
	r := &ev.Result{}
	hasNewproc := false
	for _, op := range c.Ops {
		if op.K == "newproc" {
			hasNewproc = true
		}
	}
	stats := map[string]int{}
	defer func() {
		for k, v := range stats {
			if v > 0 {
				r.Class(k)
			}
		}
		r.NonTrivial = stats["overwrite-after-reopen-read-after-further-reopen"] > 0 && c.Others > 0
	}()
	// bookkeeping for the non-triviality rule, from the program alone
	reopens, overwriteAfter := 0, false
	for _, op := range c.Ops {
		switch op.K {
		case "reopen", "newproc":
			reopens++
			if overwriteAfter {
				stats["overwrite-after-reopen-read-after-further-reopen"]++
			}
		case "set", "del":
			if reopens > 0 && op.H == 0 {
				overwriteAfter = true
			}
		}
	}
	if hasNewproc {
		stats["cross-process"]++
	}
	if !hasNewproc {
		base := filepath.Join(dbRoot(), fmt.Sprintf("c05-%d-%d", os.Getpid(), dirCounter.Add(1)))
		os.MkdirAll(base, 0o755)
		defer os.RemoveAll(base)
		w := newWorldStruct(c, r)
		w.Dir = filepath.Join(base, "db0")
		os.MkdirAll(w.Dir, 0o755)
		w.setCfg()
		share := ""
		if c.ShareRoot {
			share = w.Cfg.Storage.RootDirs[0]
		}
		closers := openOthers(c.Others, base, share)
		defer func() {
			for _, f := range closers {
				f()
			}
		}()
		if err := w.open(); err != nil {
			r.Failf("opening a fresh database failed: %v", err)
			return r
		}
		defer w.closeDB()
		for i, op := range c.Ops {
			if !w.Apply(i, op) {
				break
			}
			if !w.ReadBack(fmt.Sprintf("read-back after step %d (%s)", i, op.K)) {
				break
			}
		}
		for k, v := range w.Stats {
			stats[k] += v
		}
		return r
	}
	base := filepath.Join(dbRoot(), fmt.Sprintf("c05-%d-%d", os.Getpid(), dirCounter.Add(1)))
	dir := filepath.Join(base, "db0")
	os.MkdirAll(dir, 0o755)
	defer os.RemoveAll(base)
	cf := filepath.Join(base, "case.json")
	b, _ := json.Marshal(c)
	os.WriteFile(cf, b, 0o644)
	from := 0
	for from <= len(c.Ops) {
		to := from
		for to < len(c.Ops) && c.Ops[to].K != "newproc" {
			to++
		}
		out := filepath.Join(base, fmt.Sprintf("seg-%d.json", from))
		cmd := exec.Command(os.Args[0], "-test.run", "^TestChildNoop$")
		cmd.Env = append(os.Environ(), "VERIF_CHILD=segment", "VERIF_CHILD_CASE="+cf, "VERIF_CHILD_DIR="+dir,
			"VERIF_CHILD_FROM="+strconv.Itoa(from), "VERIF_CHILD_TO="+strconv.Itoa(to), "VERIF_CHILD_OUT="+out)
		if o, err := cmd.CombinedOutput(); err != nil {
			panic(fmt.Sprintf("INFRA: segment child failed: %v\n%s", err, tail(string(o), 2000)))
		}
		var res segResult
		rb, err := os.ReadFile(out)
		if err == nil {
			err = json.Unmarshal(rb, &res)
		}
		if err != nil {
			panic("INFRA: segment child left no result: " + err.Error())
		}
		for k, v := range res.Stats {
			stats[k] += v
		}
		r.Trace = append(r.Trace, res.Trace...)
		if res.Fail != "" {
			r.Failf("process %d (steps %d..%d, %d other databases opened first): %s", stats["processes"]+1, from, to-1, c.Others, res.Fail)
			return r
		}
		stats["processes"]++
		from = to + 1
	}
	_ = model.OK
	return r
}
