package seq

import (
	"strings"
	"testing"

	"pgregory.net/rapid"

	"github.com/glebziz/fs_db/internal/verifh/ev"
)

func genC04(t *rapid.T) CrashCase {
	c := Case{Prof: "c04", Roots: rapid.IntRange(1, 2).Draw(t, "roots"), MaxDir: 100}
	c.Keys = GenKeys(t, 2, 3, false)
	c.Ops = GenTxOps(t, TxGenOpts{MinOps: 3, MaxOps: 15, Weights: map[string]int{
		"begin": 4, "set": 12, "del": 3, "commit": 5, "rollback": 2, "gc": 2}})
	// every workload contains a multi-key transaction that ends (commit, sometimes after interfering
	// commits): the in-flight Commit is where "all keys or none" is decided
	frag := GenConflictScenario(t)
	at := rapid.IntRange(0, len(c.Ops)).Draw(t, "fragAt")
	c.Ops = append(c.Ops[:at:at], append(frag, c.Ops[at:]...)...)
	if rapid.Bool().Draw(t, "overtaken") {
		frag := GenOvertakenCommit(t)
		at := rapid.IntRange(0, len(c.Ops)).Draw(t, "fragAt2")
		c.Ops = append(c.Ops[:at:at], append(frag, c.Ops[at:]...)...)
	}
	for i := range c.Ops {
		if c.Ops[i].Len > 5000 {
			c.Ops[i].Len %= 5000
		}
	}
	return CrashCase{Case: c, RecEvery: rapid.SampledFrom([]int{0, 0, 7, 5}).Draw(t, "recEvery"), OddPath: rapid.IntRange(0, 2).Draw(t, "oddPath") == 0}
}

func TestC04(t *testing.T) { ev.Check(t, "C04", "crash", genC04, ExecC04) }

// genC04Bulk: one transaction writes so many keys with long names that its version records exceed what
// one Badger transaction can hold (about 10 MB); crash points are sampled inside its Commit.
func genC04Bulk(t *rapid.T) CrashCase {
	c := Case{Prof: "c04", Roots: 1, MaxDir: 100, Keys: []string{"a", "b"}}
	n := rapid.SampledFrom([]int{40, 280, 320, 600}).Draw(t, "burstKeys")
	nameLen := rapid.SampledFrom([]int{40000, 40000, 20000}).Draw(t, "nameLen")
	c.Ops = []Op{{K: "set", Key: 0, Len: 3}, {K: "begin", Lvl: rapid.SampledFrom([]int{0, 1, 2, 3}).Draw(t, "lvl")},
		{K: "set", Last: true, Key: 0, Len: 5}, {K: "txburst", Last: true, N: n, Len: nameLen}, {K: "set", Last: true, Key: 1, Len: 7},
		{K: "commit", Last: true}, {K: "set", Key: 1, Len: 2}}
	return CrashCase{Case: c, Bulk: true, Sample: rapid.IntRange(6, 10).Draw(t, "sample")}
}

// genC04Timed: the C04 workloads, killed from outside at generated moments (thousandths of the run).
func genC04Timed(t *rapid.T) CrashCase {
	cc := genC04(t)
	cc.RecEvery = 0
	cc.Timed = true
	n := rapid.IntRange(6, 14).Draw(t, "kills")
	for i := 0; i < n; i++ {
		cc.KillAtPermille = append(cc.KillAtPermille, rapid.IntRange(0, 1000).Draw(t, "permille"))
	}
	return cc
}

func TestC04Timed(t *testing.T) { ev.Check(t, "C04", "timed", genC04Timed, ExecC04Timed) }

func TestC04Bulk(t *testing.T) { ev.Check(t, "C04", "bulk", genC04Bulk, ExecC04) }

func genC05(t *rapid.T) Case {
	c := Case{Prof: "c05", Roots: rapid.IntRange(1, 2).Draw(t, "roots"), MaxDir: 100, Others: rapid.IntRange(0, 2).Draw(t, "others")}
	c.Keys = GenKeys(t, 2, 3, false)
	c.KeysHex = GenBinKeys(t)
	c.ShareRoot = rapid.IntRange(0, 3).Draw(t, "shareRoot") == 0
	// now and then a key whose version record is larger than a megabyte (Badger keeps such values in its
	// value log and treats their size differently)
	if rapid.IntRange(0, 19).Draw(t, "hugeKey") == 0 {
		c.Keys[0] = strings.Repeat("K", rapid.SampledFrom([]int{1<<20 - 41, 1<<20 - 40, 1<<20 + 17, 2<<20 + 5}).Draw(t, "hugeKeyLen"))
	}
	cross := rapid.Bool().Draw(t, "crossProcess")
	nseg := rapid.IntRange(2, 4).Draw(t, "segments")
	for s := 0; s < nseg; s++ {
		w := map[string]int{"begin": 2, "set": 10, "del": 3, "commit": 3, "rollback": 1, "gc": 1, "otherdb": 1}
		maxOps := 8
		if s == 0 {
			maxOps = 16 // the first life of the database writes more, so that persisted version numbers are high
		}
		c.Ops = append(c.Ops, GenTxOps(t, TxGenOpts{MinOps: 1, MaxOps: maxOps, Weights: w})...)
		if rapid.Bool().Draw(t, "scenario") {
			// a transaction whose writes interleave with other commits to the same keys, committed
			// (or aborted) right before the reopen: what is persisted must order like what was acknowledged
			c.Ops = append(c.Ops, GenConflictScenario(t)...)
		}
		if s < nseg-1 {
			k := "reopen"
			if cross && rapid.IntRange(0, 2).Draw(t, "np") > 0 {
				k = "newproc"
			}
			c.Ops = append(c.Ops, Op{K: k})
		}
	}
	return c
}

func TestC05(t *testing.T) { ev.Check(t, "C05", "seq", genC05, ExecC05) }
