package seq

import (
	"context"
	"encoding/hex"
	"encoding/json"
	"errors"
	"os"
	"os/exec"
	"path/filepath"
	"sort"
	"testing"
	"time"

	"pgregory.net/rapid"

	"github.com/glebziz/fs_db"
	"github.com/glebziz/fs_db/config"
	fsmodel "github.com/glebziz/fs_db/internal/model"
	"github.com/glebziz/fs_db/internal/verifh/ev"
	"github.com/glebziz/fs_db/pkg/inline"
	inlinedb "github.com/glebziz/fs_db/pkg/inline/db"
)

// C19, fixture part: a database directory written by the pinned revision must keep loading to the
// recorded values with the current tree (on-disk format of version records).

type fixtureCase struct {
	Name string `json:"name"`
}

type fixtureExpect struct {
	Keys   map[string]string `json:"keys"`
	Absent []string          `json:"absent"`
}

func execFixture(c fixtureCase) *ev.Result {
	r := &ev.Result{NonTrivial: true}
	src := filepath.Join(os.Getenv("VERIF_DIR"), "fixtures", c.Name)
	var exp fixtureExpect
	b, err := os.ReadFile(filepath.Join(src, "EXPECTED.json"))
	if err == nil {
		err = json.Unmarshal(b, &exp)
	}
	if err != nil {
		panic("INFRA: fixture expectation unreadable: " + err.Error())
	}
	dst := filepath.Join(dbRoot(), "fixture-"+c.Name+"-"+time.Now().Format("150405.000000"))
	if err := exec.Command("cp", "-a", src, dst).Run(); err != nil {
		panic("INFRA: cannot copy fixture: " + err.Error())
	}
	defer os.RemoveAll(dst)
	old, _ := os.Getwd()
	if err := os.Chdir(dst); err != nil { // the fixture uses relative paths
		panic(err)
	}
	defer os.Chdir(old)
	ctx := context.Background()
	for round := 1; round <= 2; round++ { // a second open (after the first one's cleanup) must agree
		db, err := inline.Open(ctx, config.Config{
			Storage: config.Storage{DbPath: "db", MaxDirCount: 100, RootDirs: []string{"root0"}, GCPeriod: time.Hour},
			WPool:   config.WPool{NumWorkers: 2, SendDuration: time.Millisecond},
		})
		if err != nil {
			r.Failf("open %d of the pinned-revision database failed: %v", round, err)
			return r
		}
		keys, err := db.GetKeys(ctx)
		if err != nil {
			r.Failf("open %d: GetKeys failed: %v", round, err)
			db.Close()
			return r
		}
		var want []string
		for k := range exp.Keys {
			want = append(want, k)
		}
		sort.Strings(want)
		if !equalStrings(keys, want) {
			r.Failf("open %d: GetKeys = %q, the database written by the pinned revision holds %q", round, keys, want)
			db.Close()
			return r
		}
		for k, hx := range exp.Keys {
			wantB, _ := hex.DecodeString(hx)
			got, err := db.Get(ctx, k)
			if err != nil || string(got) != string(wantB) {
				r.Failf("open %d: Get(%q) = %x, %v; recorded value %x", round, k, got, err, wantB)
				db.Close()
				return r
			}
		}
		for _, k := range exp.Absent {
			if _, err := db.Get(ctx, k); !errors.Is(err, fs_db.ErrNotFound) {
				r.Failf("open %d: Get(%q) = %v, want ErrNotFound", round, k, err)
				db.Close()
				return r
			}
		}
		// the raw records: every live key has a main-transaction record, ids are canonical
		files, err := inlinedb.VerifContainer(db).FileRepo().GetAll(ctx)
		if err != nil {
			r.Failf("open %d: decoding the stored version records failed: %v", round, err)
			db.Close()
			return r
		}
		live := map[string]bool{}
		for _, f := range files {
			if !isCanonicalUUID(f.TxId) || !isCanonicalUUID(f.ContentId) || f.Seq.Zero() {
				r.Failf("open %d: implausible decoded record %+v", round, f)
			}
			if f.TxId == fsmodel.MainTxId {
				live[f.Key] = true
			}
		}
		for k := range exp.Keys {
			if !live[k] {
				r.Failf("open %d: no main-transaction record decodes to key %q", round, k)
			}
		}
		time.Sleep(50 * time.Millisecond)
		db.Close()
		if r.Fail != "" {
			return r
		}
	}
	return r
}

func equalStrings(a, b []string) bool {
	if len(a) != len(b) {
		return false
	}
	for i := range a {
		if a[i] != b[i] {
			return false
		}
	}
	return true
}

func TestC19Fixture(t *testing.T) {
	const prop, part = "C19", "fixture"
	t.Cleanup(func() { ev.Flush(prop, part) })
	if ev.Replaying() {
		ev.Check(t, prop, part, func(*rapid.T) fixtureCase { return fixtureCase{} }, execFixture)
		return
	}
	for _, name := range []string{"c19-pinned"} {
		c := fixtureCase{Name: name}
		if !ev.Direct(t, prop, part, c, execFixture(c)) {
			return
		}
	}
}
