package seq

import (
	"fmt"
	"os"
	"path/filepath"
	"time"

	"github.com/glebziz/fs_db/internal/verifh/ev"
	"github.com/glebziz/fs_db/internal/verifh/model"
)

// endAllTxs ends every open transaction (even ids commit, odd ids roll back) and checks the results.
func (w *World) endAllTxs() bool {
	for _, id := range w.M.OpenTxs() {
		k := "rollback"
		if id%2 == 0 {
			k = "commit"
		}
		// address exactly this transaction: it is the first open one
		if !w.Apply(len(w.Case.Ops), Op{K: k, H: 1}) {
			return false
		}
	}
	return true
}

// ExecC14: fault-free history, quiescence, then the roots must hold exactly the live contents.
func ExecC14(c Case) *ev.Result {
	r := &ev.Result{}
	w, err := NewWorld(c, r)
	if err != nil {
		r.Failf("opening a fresh database failed: %v", err)
		return r
	}
	defer w.Close()
	ok := true
	for i, op := range c.Ops {
		if ok = w.Apply(i, op); !ok {
			break
		}
	}
	if ok {
		switch c.Variant {
		case 0: // end everything, let the background work drain, collect
			ok = w.endAllTxs()
		case 1: // end everything, close at once with cleanup possibly pending, reopen
			if ok = w.endAllTxs(); ok {
				if err := w.Reopen(); err != nil {
					r.Failf("reopen failed: %v", err)
					ok = false
				}
			}
		default: // close with transactions still open: they are gone after the reopen
			if err := w.Reopen(); err != nil {
				r.Failf("reopen failed: %v", err)
				ok = false
			}
		}
	}
	if ok {
		w.step = len(c.Ops) + 1
		if err := w.GC(); err != nil {
			r.Failf("final collector pass failed: %v", err)
		} else if d := w.WaitDisk(3*time.Second, 60*time.Second); d != "" {
			r.Failf("after quiescence (variant %d) the roots do not hold exactly the live contents: %s", c.Variant, d)
		} else {
			w.ReadBackAuto("final read-back")
			if t := WalkRoots(w.Cfg.Storage.RootDirs, false); len(t.Bad) > 0 {
				r.Failf("tree structure: %v", t.Bad)
			}
		}
	}
	finish(w, r)
	return r
}

// ---- C17 ---------------------------------------------------------------------------------------

type dirState struct {
	wasFull map[string]bool
	limit   int
	// pristine: nothing has been deleted, collected or reopened yet, so every directory of a root
	// except the one in use is full: a root holding n files has at most n/limit + 2 directories (the
	// effective limit is the configured one, raised to 100 if it is lower)
	pristine bool
}

func (w *World) effLimit() int {
	l := int(w.Case.MaxDir)
	if l < 100 {
		l = 100
	}
	return l
}

func (w *World) checkTree(what string, ds *dirState, afterWrite bool) bool {
	if !w.checkForeign(what) {
		return false
	}
	t := WalkRoots(w.Cfg.Storage.RootDirs, false)
	if len(t.Bad) > 0 {
		w.R.Failf("%s: %s", what, t.Bad[0])
		return false
	}
	perRoot := map[string]int{}
	for d, n := range t.Dirs {
		perRoot[filepath.Dir(d)]++
		if n > ds.limit {
			w.R.Failf("%s: directory %s holds %d entries, the limit is %d", what, d, n, ds.limit)
			return false
		}
		if n >= ds.limit && !ds.wasFull[d] {
			ds.wasFull[d] = true
			w.Stats["dir-reached-limit"]++
		}
	}
	if ds.pristine {
		files := map[string]int{}
		for d, n := range t.Dirs {
			files[filepath.Dir(d)] += n
		}
		for root, nd := range perRoot {
			if nd > files[root]/ds.limit+2 {
				w.R.Failf("%s: root %s holds %d files in %d directories although nothing was ever deleted: directories are retired before they hold %d entries (the effective limit)", what, root, files[root], nd, ds.limit)
				return false
			}
		}
	}
	if afterWrite {
		for _, root := range w.Cfg.Storage.RootDirs {
			root = filepath.Clean(root)
			if perRoot[root] == 0 {
				w.R.Failf("%s: root %s offers no directory to write to after a successful write", what, root)
				return false
			}
		}
		for root, n := range perRoot {
			if n >= 2 {
				_ = root
				w.Stats["rotated"]++
				break
			}
		}
	}
	return true
}

func (w *World) burstKey(b, j int) string { return fmt.Sprintf("burst%d-%d", b, j) }

// ExecC17: histories with bursts; directory-tree invariants after every step.
func ExecC17(c Case) *ev.Result {
	r := &ev.Result{}
	w, err := NewWorld(c, r)
	if err != nil {
		r.Failf("opening a fresh database failed: %v", err)
		return r
	}
	defer w.Close()
	ds := &dirState{wasFull: map[string]bool{}, limit: w.effLimit(), pristine: true}
	var bursts [][]string // keys of each burst still (possibly) present
	nb := 0
	dropped := map[string]map[string]bool{} // root no longer configured -> files it held when it was dropped
	for i, op := range c.Ops {
		what := fmt.Sprintf("step %d (%s)", i, op.K)
		w.step = i
		wrote := false
		if op.K != "burst" {
			ds.pristine = false // overwrites, deletions, collector runs, reopening: directories may have room again
		}
		switch op.K {
		case "burst":
			var keys []string
			for j := 0; j < op.N; j++ {
				k := w.burstKey(nb, j)
				v := model.Val{Len: 1 + j%7, Seed: uint32(i*1000 + j + 1)}
				if err := w.DB.Set(w.ctx, k, model.Bytes(v)); err != nil {
					r.Failf("%s: Set(%q) failed: %v", what, k, err)
					break
				}
				w.M.Write(0, k, v)
				keys = append(keys, k)
				// the limit must hold after every single write, not only after the burst
				if j%16 == 15 && !w.checkTree(what, ds, true) {
					break
				}
			}
			bursts = append(bursts, keys)
			nb++
			wrote = true
			w.Stats["burst"]++
		case "delburst":
			if len(bursts) == 0 {
				continue
			}
			bi := op.Key % len(bursts)
			if bi < 0 {
				bi = -bi
			}
			// N > 0: only the first N keys of the burst (the ones written first, i.e. those in the
			// older directory when the burst crossed a rotation)
			victims := bursts[bi]
			if op.N > 0 && op.N < len(victims) {
				victims = victims[:op.N]
				w.Stats["delburst-partial"]++
			}
			for _, k := range victims {
				if err := w.DB.Delete(w.ctx, k); err != nil {
					r.Failf("%s: Delete(%q) failed: %v", what, k, err)
					break
				}
				w.M.Write(0, k, model.Val{Del: true})
			}
			if len(victims) < len(bursts[bi]) {
				bursts[bi] = bursts[bi][len(victims):]
			} else {
				bursts = append(bursts[:bi], bursts[bi+1:]...)
			}
			if r.Fail == "" {
				if err := w.GC(); err != nil {
					r.Failf("%s: collector failed: %v", what, err)
				}
			}
			w.Stats["delburst"]++
			if r.Fail == "" && !w.probeReuse(what, ds, i) {
				break
			}
		case "droproot":
			// reopen with the last root no longer configured (a decommissioned disk): what it holds stays
			// readable, but nothing new may be created there
			if len(w.Cfg.Storage.RootDirs) < 2 {
				continue
			}
			w.closeDB()
			w.M.Reopen()
			last := w.Cfg.Storage.RootDirs[len(w.Cfg.Storage.RootDirs)-1]
			w.Cfg.Storage.RootDirs = w.Cfg.Storage.RootDirs[:len(w.Cfg.Storage.RootDirs)-1]
			dropped[last] = filesUnder(last)
			if err := w.open(); err != nil {
				r.Failf("%s: reopening without root %s failed: %v", what, last, err)
				break
			}
			w.Stats["root-dropped"]++
		default:
			if !w.Apply(i, op) {
				break
			}
			wrote = op.K == "set"
		}
		if r.Fail != "" {
			break
		}
		if !w.checkTree(what, ds, wrote) {
			break
		}
		for root, had := range dropped {
			for f := range filesUnder(root) {
				if !had[f] {
					r.Failf("%s: %s was created inside %s, which is no longer a configured root", what, f, root)
				}
			}
		}
		if r.Fail != "" {
			break
		}
	}
	if r.Fail == "" {
		w.checkKeys(0, "final GetKeys")
	}
	finish(w, r)
	return r
}

// filesUnder lists every file below dir (relative paths).
func filesUnder(dir string) map[string]bool {
	out := map[string]bool{}
	filepath.WalkDir(dir, func(p string, d os.DirEntry, err error) error {
		if err == nil && !d.IsDir() {
			out[p] = true
		}
		return nil
	})
	return out
}

// probeReuse: a directory that once reached the limit and has regained room through deletions must
// receive one of the next writes. With k candidate directories chosen uniformly per write, 64*k
// writes miss it with probability (1-1/k)^(64k) < 2e-28.
func (w *World) probeReuse(what string, ds *dirState, step int) bool {
	t := WalkRoots(w.Cfg.Storage.RootDirs, false)
	target := ""
	for d := range ds.wasFull {
		if n, ok := t.Dirs[d]; ok && n < ds.limit-1 && n > 0 {
			if target == "" || d < target {
				target = d
			}
		}
	}
	if target == "" {
		return true
	}
	w.Stats["reuse-probe"]++
	k := len(t.Dirs)
	if k < 2 {
		k = 2
	}
	before := t.Dirs[target]
	for j := 0; j < 64*k; j++ {
		key := fmt.Sprintf("probe%d-%d", step, j)
		v := model.Val{Len: 2, Seed: uint32(step*100000 + j + 7)}
		if err := w.DB.Set(w.ctx, key, model.Bytes(v)); err != nil {
			w.R.Failf("%s: probe Set failed: %v", what, err)
			return false
		}
		w.M.Write(0, key, v)
		if j%4 == 3 || j == 64*k-1 {
			now := WalkRoots(w.Cfg.Storage.RootDirs, false)
			if now.Dirs[target] > before {
				w.Stats["reuse-confirmed"]++
				return w.checkTree(what, ds, true)
			}
			if !w.checkTree(what, ds, true) {
				return false
			}
		}
	}
	w.R.Failf("%s: directory %s reached the limit earlier, regained room through deletions (%d of %d entries) and received none of the next %d writes", what, target, before, ds.limit, 64*k)
	return false
}
