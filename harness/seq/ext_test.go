package seq

import (
	"fmt"
	"testing"

	"pgregory.net/rapid"

	"github.com/glebziz/fs_db/internal/verifh/ev"
)

var extLens = []int{0, 1, 2047, 2048, 2049, 4095, 4096, 4097, 6000, 100 * 1024}

// genC11 draws C01/C02/C03/C13-style histories to be executed through pkg/external against an
// in-process server (internal/app) on a loopback port.
func genC11(t *rapid.T) Case {
	c := Case{Prof: "c11", Roots: 1, MaxDir: 100, External: true}
	c.Keys = GenKeys(t, 2, 4, true)
	c.CallerMD = rapid.IntRange(0, 2).Draw(t, "callerMetadata") == 0
	kind := rapid.IntRange(0, 2).Draw(t, "shape")
	switch kind {
	case 0: // autocommit, content heavy, with the empty key
		n := rapid.IntRange(2, 25).Draw(t, "nops")
		for i := 0; i < n; i++ {
			k := rapid.SampledFrom([]string{"set", "set", "set", "del", "get", "getr", "keys"}).Draw(t, "kind")
			op := Op{K: k, Key: rapid.IntRange(0, 5).Draw(t, "key")}
			if rapid.IntRange(0, 7).Draw(t, "special") == 0 && k != "del" {
				op.Key = -1 - rapid.IntRange(0, 1).Draw(t, "which")
				if k == "set" {
					op.Key = -1
				}
			}
			if k == "set" {
				op.Len = rapid.OneOf(rapid.SampledFrom(extLens), rapid.IntRange(0, 5000)).Draw(t, "len")
				op.Via, op.Split = GenVia(t, op.Len)
				op.Src = GenSrc(t, op.Via)
			}
			c.Ops = append(c.Ops, op)
			if rapid.IntRange(0, 14).Draw(t, "restart") == 0 {
				c.Ops = append(c.Ops, Op{K: "reopen"}) // the server is stopped and started again on the same directories; a new client connects
			}
		}
	case 1: // transactional
		c.Ops = GenTxOps(t, TxGenOpts{MinOps: 5, MaxOps: 40, Weights: map[string]int{
			"begin": 5, "set": 10, "del": 3, "get": 2, "getr": 1, "keys": 1, "commit": 4, "rollback": 2, "gc": 1, "reopen": 1}})
	default: // with operations through ended / unknown transactions
		c.Ops = GenTxOps(t, TxGenOpts{MinOps: 5, MaxOps: 40, LateWeight: 25, Weights: map[string]int{
			"begin": 6, "set": 8, "del": 3, "get": 3, "getr": 1, "keys": 2, "commit": 5, "rollback": 3, "reopen": 1}})
	}
	return c
}

func TestC11(t *testing.T) { ev.Check(t, "C11", "ext", genC11, Exec) }

// genC11BinKey draws short programs over a key pool in which most keys are not valid UTF-8.
func genC11BinKey(t *rapid.T) BinKeyCase {
	var c BinKeyCase
	pool := []string{"ff", "61ff62", "c328", "fffe00", "e28228", "6b00ff", "f0288cbc", "c0af", "eda080"}
	for n := rapid.IntRange(1, 3).Draw(t, "nkeys"); n > 0; n-- {
		if rapid.IntRange(0, 3).Draw(t, "valid") == 0 {
			// "-" stands for the empty key: what the inline client does with it (Set refuses it, Delete and the
			// reads do whatever they do) is what the gRPC client has to do as well
			c.KeysHex = append(c.KeysHex, rapid.SampledFrom([]string{"61", "d0bad0bbd18ed187", "2f612f62", "-", "-"}).Draw(t, "validKey"))
		} else if rapid.Bool().Draw(t, "fromPool") {
			c.KeysHex = append(c.KeysHex, rapid.SampledFrom(pool).Draw(t, "poolKey"))
		} else {
			b := rapid.SliceOfN(rapid.Byte(), 1, 12).Draw(t, "keyBytes")
			c.KeysHex = append(c.KeysHex, fmt.Sprintf("%x", b))
		}
	}
	kinds := []string{"set", "set", "setr", "create", "get", "getr", "del", "keys", "begin", "commit", "rollback"}
	for n := rapid.IntRange(1, 10).Draw(t, "nops"); n > 0; n-- {
		c.Ops = append(c.Ops, BKOp{K: rapid.SampledFrom(kinds).Draw(t, "kind"), Key: rapid.IntRange(0, 2).Draw(t, "key"),
			Len: rapid.SampledFrom([]int{0, 1, 9, 2048, 5000}).Draw(t, "len"), Tx: rapid.Bool().Draw(t, "tx")})
	}
	return c
}

func TestC11BinKey(t *testing.T) { ev.Check(t, "C11", "binkey", genC11BinKey, ExecC11BinKey) }

// genC11FileDiff draws the life of one file handle: writes of boundary sizes, a storing side that
// succeeds, rejects the key or runs out of space, and one to three Close calls.
func genC11FileDiff(t *rapid.T) FileDiffCase {
	var c FileDiffCase
	switch rapid.IntRange(0, 3).Draw(t, "outcome") {
	case 0:
		c.EmptyKey = true
	case 1:
		c.NoSpace = rapid.SampledFrom([]int{1, 2047, 2048, 5000, 32768, 100000}).Draw(t, "noSpaceAfter")
	}
	if rapid.Bool().Draw(t, "prev") {
		c.Prev = rapid.IntRange(1, 3000).Draw(t, "prevLen")
	}
	c.InTx = rapid.IntRange(0, 3).Draw(t, "inTx") == 0
	sizes := []int{0, 1, 100, 2047, 2048, 2049, 4096, 5000, 32768, 70000, 200000, 300000}
	if rapid.IntRange(0, 9).Draw(t, "huge") == 0 {
		sizes = append(sizes, 1<<20, 3<<20)
	}
	for n := rapid.IntRange(0, 6).Draw(t, "nwrites"); n > 0; n-- {
		c.Writes = append(c.Writes, rapid.SampledFrom(sizes).Draw(t, "size"))
	}
	c.Closes = rapid.SampledFrom([]int{1, 1, 2, 2, 3}).Draw(t, "closes")
	return c
}

func TestC11FileDiff(t *testing.T) { ev.Check(t, "C11", "filediff", genC11FileDiff, ExecC11FileDiff) }
