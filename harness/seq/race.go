package seq

import (
	"context"
	"encoding/json"
	"fmt"
	"os"
	"os/exec"
	"path/filepath"
	"regexp"
	"sort"
	"strings"
	"sync"
	"time"

	"github.com/glebziz/fs_db"
	fsmodel "github.com/glebziz/fs_db/internal/model"
	"github.com/glebziz/fs_db/internal/verifh/ev"
	"github.com/glebziz/fs_db/internal/verifh/model"
)

// RaceCase is a concurrent client program for the race detector (C15).
type RaceCase struct {
	External bool     `json:"external,omitempty"`
	Warm     bool     `json:"warm,omitempty"`
	Roots    int      `json:"roots"`
	Keys     []string `json:"keys"`
	Workers  [][]Op   `json:"workers"` // one script per goroutine; H>0 means "inside my own transaction"
	// Prefill > 0: the database is first filled with that many keys (some overwritten) and closed; the
	// program then runs on the reopened database whose collector period is 200 microseconds, so the
	// database's own background work overlaps with start-up itself
	Prefill int `json:"prefill,omitempty"`
}

// runRaceProgram is executed in the child (a -race build). Results are irrelevant: the oracle is
// the race detector's log.
func runRaceProgram(rc RaceCase, dir string) {
	c := Case{Prof: "c15", Keys: rc.Keys, Roots: rc.Roots, MaxDir: 100, External: rc.External}
	w := newWorldStruct(c, &ev.Result{})
	w.Dir = dir
	w.setCfg()
	w.Cfg.Storage.GCPeriod = time.Millisecond // the pool's own collector runs overlap with the clients
	ctx := context.Background()
	if rc.Prefill > 0 {
		w.Cfg.Storage.GCPeriod = time.Hour
		if err := w.open(); err != nil {
			say("openfail %v", err)
			os.Exit(4)
		}
		for i := 0; i < rc.Prefill; i++ {
			_ = w.DB.Set(ctx, fmt.Sprintf("fill-%d", i%(rc.Prefill*2/3+1)), []byte{byte(i)})
		}
		w.closeDB()
		w.Cfg.Storage.GCPeriod = 200 * time.Microsecond
	}
	if err := w.open(); err != nil {
		say("openfail %v", err)
		os.Exit(4)
	}
	if rc.Warm {
		_ = w.DB.Set(ctx, "warm", []byte("x"))
		_, _ = w.DB.Get(ctx, "warm")
		_, _ = w.DB.GetKeys(ctx)
		if tx, err := w.DB.Begin(ctx); err == nil {
			_ = tx.Set(ctx, "warm", []byte("y"))
			_ = tx.Commit(ctx)
		}
		_ = w.DB.Delete(ctx, "warm")
	}
	start := make(chan struct{})
	var wg sync.WaitGroup
	for gi, script := range rc.Workers {
		wg.Add(1)
		go func(gi int, script []Op) {
			defer wg.Done()
			defer func() {
				if p := recover(); p != nil {
					say("panic worker %d: %v", gi, p)
				}
			}()
			<-start
			var tx, ended fs_db.Tx
			for i, op := range script {
				var s fs_db.Store = w.DB
				if op.H > 0 && tx != nil {
					s = tx
				}
				key := rc.Keys[abs(op.Key)%len(rc.Keys)]
				if op.Key < 0 {
					key = "" // rejected by the store: the failure paths (Create's storing side reports the error while the client still writes) run concurrently too
				}
				if op.Late && ended != nil {
					s = ended // a handle whose transaction has ended: every call fails
				}
				switch op.K {
				case "begin":
					if tx == nil {
						t, err := w.DB.Begin(ctx, fsmodel.TxIsoLevel(abs(op.Lvl)%4))
						if err == nil {
							tx = t
						}
					}
				case "commit":
					if tx != nil {
						_ = tx.Commit(ctx)
						ended, tx = tx, nil
					}
				case "rollback":
					if tx != nil {
						_ = tx.Rollback(ctx)
						ended, tx = tx, nil
					}
				case "set":
					b := model.Bytes(model.Val{Len: op.Len, Seed: uint32(gi*1000 + i)})
					_ = w.doWrite(s, key, b, op)
				case "bigtx":
					// more than a thousand versions become garbage in one call (the cleaner works in batches of 1000)
					if t, err := w.DB.Begin(ctx); err == nil {
						for j := 0; j < op.N; j++ {
							_ = t.Set(ctx, key, []byte{byte(j)})
						}
						if op.Len%2 == 0 {
							_ = t.Rollback(ctx)
						} else {
							_ = t.Commit(ctx)
						}
					}
				case "del":
					_ = s.Delete(ctx, key)
				case "get":
					_, _ = s.Get(ctx, key)
				case "getr":
					_, _ = w.readKey0(s, key)
				case "keys":
					_, _ = s.GetKeys(ctx)
				case "gc":
					if w.Cont != nil {
						_ = w.Cont.Cleaner().DeleteOld(ctx)
					}
				}
			}
			if tx != nil {
				_ = tx.Rollback(ctx)
			}
		}(gi, script)
	}
	close(start)
	wg.Wait()
	time.Sleep(5 * time.Millisecond) // let a few periodic collector runs overlap the tail
	w.closeDB()
	say("done")
}

func abs(i int) int {
	if i < 0 {
		return -i
	}
	return i
}

func (w *World) readKey0(s fs_db.Store, key string) ([]byte, error) {
	rc, err := s.GetReader(w.ctx, key)
	if err != nil {
		return nil, err
	}
	defer rc.Close()
	buf := make([]byte, 4096)
	for {
		if _, err := rc.Read(buf); err != nil {
			return nil, nil
		}
	}
}

// ---- parent side: run the child, parse the race detector's log ----------------------------------

var (
	reAccess = regexp.MustCompile(`^(Read|Write|Previous read|Previous write|Atomic read|Atomic write|Previous atomic read|Previous atomic write) at 0x[0-9a-f]+ by `)
)

// RaceReport is one "WARNING: DATA RACE" block reduced to the top-most fs_db frame of each access.
type RaceReport struct {
	Pair string
	Text string
}

func topFrame(stack []string) string {
	for _, f := range stack {
		if ft := strings.TrimSpace(f); strings.HasPrefix(ft, "github.com/glebziz/fs_db") && !strings.HasPrefix(ft, "github.com/glebziz/fs_db/internal/verifh/") {
			return f
		}
	}
	if len(stack) > 0 {
		return stack[0]
	}
	return "?"
}

func normFrame(f string) string {
	f = strings.TrimSpace(f)
	if i := strings.LastIndex(f, "("); i > 0 && strings.HasSuffix(f, ")") {
		f = f[:i] // drop the argument list "()"
	}
	f = strings.TrimPrefix(f, "github.com/glebziz/fs_db/")
	// generic instantiations and closure numbering are not stable identifiers
	f = regexp.MustCompile(`\[[^\]]*\]`).ReplaceAllString(f, "")
	f = regexp.MustCompile(`\.func\d+(\.\d+)*`).ReplaceAllString(f, ".func")
	f = regexp.MustCompile(`\.gowrap\d+`).ReplaceAllString(f, ".gowrap")
	return f
}

// ParseRaceLog splits the race detector's output into reports.
func ParseRaceLog(log string) []RaceReport {
	var out []RaceReport
	for _, block := range strings.Split(log, "==================") {
		if !strings.Contains(block, "WARNING: DATA RACE") {
			continue
		}
		var stacks [][]string
		var cur []string
		in := false
		for _, line := range strings.Split(block, "\n") {
			switch {
			case reAccess.MatchString(line):
				if in {
					stacks = append(stacks, cur)
				}
				cur, in = nil, true
			case strings.TrimSpace(line) == "":
				if in {
					stacks = append(stacks, cur)
				}
				in = false
			case in && strings.HasPrefix(line, "  ") && !strings.HasPrefix(strings.TrimSpace(line), "/"):
				cur = append(cur, line)
			}
		}
		if in {
			stacks = append(stacks, cur)
		}
		var tops []string
		for _, s := range stacks {
			if len(tops) < 2 {
				tops = append(tops, normFrame(topFrame(s)))
			}
		}
		for len(tops) < 2 {
			tops = append(tops, "?")
		}
		sort.Strings(tops)
		out = append(out, RaceReport{Pair: tops[0] + " <-> " + tops[1], Text: strings.TrimSpace(block)})
	}
	return out
}

// KnownRaceID is the known-findings id of a race between two functions.
func KnownRaceID(pair string) string { return "C15-race: " + pair }

// ExecC15 runs the program in a child built with -race and judges the detector's reports.
func ExecC15(rc RaceCase) *ev.Result {
	r := &ev.Result{}
	base := filepath.Join(dbRoot(), fmt.Sprintf("c15-%d-%d", os.Getpid(), dirCounter.Add(1)))
	dir := filepath.Join(base, "db0")
	os.MkdirAll(dir, 0o755)
	defer os.RemoveAll(base)
	cf := filepath.Join(base, "case.json")
	b, _ := json.Marshal(rc)
	os.WriteFile(cf, b, 0o644)
	logPrefix := filepath.Join(base, "race")
	cmd := exec.Command(os.Args[0], "-test.run", "^TestChildNoop$")
	cmd.Env = append(os.Environ(), "VERIF_CHILD=race", "VERIF_CHILD_CASE="+cf, "VERIF_CHILD_DIR="+dir,
		"GORACE=halt_on_error=0 log_path="+logPrefix+" history_size=2")
	out, err := cmd.CombinedOutput()
	outS := string(out)
	if !strings.Contains(outS, "done") {
		if strings.Contains(outS, "openfail") {
			r.Failf("opening the database failed in the child: %s", tail(outS, 500))
			return r
		}
		// a crash (fatal error: concurrent map writes, nil dereference ...) is a violation in its own right
		r.Failf("the concurrent program crashed the process (%v): %s", err, tail(outS, 1500))
		return r
	}
	for _, l := range strings.Split(outS, "\n") {
		if strings.HasPrefix(l, "panic worker") {
			r.Failf("a client goroutine panicked: %s", l)
			return r
		}
	}
	var log strings.Builder
	matches, _ := filepath.Glob(logPrefix + ".*")
	for _, m := range matches {
		if lb, err := os.ReadFile(m); err == nil {
			log.Write(lb)
		}
	}
	reports := ParseRaceLog(log.String())
	kinds := map[string]bool{}
	for _, ws := range rc.Workers {
		for _, op := range ws {
			kinds[op.K] = true
		}
	}
	r.NonTrivial = len(rc.Workers) >= 3 && len(kinds) >= 3
	r.Count("race_reports", int64(len(reports)))
	if rc.External {
		r.Class("external")
	} else {
		r.Class("inline")
	}
	if rc.Warm {
		r.Class("warm")
	} else {
		r.Class("cold")
	}
	for _, rep := range reports {
		id := KnownRaceID(rep.Pair)
		if ev.KnownOpen(id) {
			r.KnownHits = append(r.KnownHits, id)
			continue
		}
		r.Failf("data race between %s", rep.Pair)
		r.Trace = append(r.Trace, strings.Split(rep.Text, "\n")...)
		return r
	}
	return r
}
