package seq

import "pgregory.net/rapid"

// TxGenOpts shapes generated transactional histories.
type TxGenOpts struct {
	MinOps, MaxOps   int
	MinKeys, MaxKeys int
	Weights          map[string]int // op kind -> weight
	LateWeight       int            // weight of an op addressed to an ended / unknown transaction (C13)
	BigContent       bool
}

func weighted(w map[string]int, order []string) []string {
	var out []string
	for _, k := range order {
		for i := 0; i < w[k]; i++ {
			out = append(out, k)
		}
	}
	return out
}

var opOrder = []string{"begin", "set", "del", "get", "getr", "keys", "commit", "rollback", "gc", "reopen"}

// GenTxOps draws a transactional history.
func GenTxOps(t *rapid.T, o TxGenOpts) []Op {
	kinds := weighted(o.Weights, opOrder)
	n := rapid.IntRange(o.MinOps, o.MaxOps).Draw(t, "nops")
	// in a fifth of the cases concentrate the writes on one key so that it gets many versions
	hotKey := rapid.IntRange(0, 4).Draw(t, "hot") == 0
	var ops []Op
	for i := 0; i < n; i++ {
		k := rapid.SampledFrom(kinds).Draw(t, "kind")
		op := Op{K: k}
		switch k {
		case "begin":
			op.Lvl = rapid.IntRange(0, 4).Draw(t, "lvl")
		case "gc", "reopen":
		default:
			op.H = rapid.IntRange(0, 6).Draw(t, "actor")
			if hotKey && rapid.IntRange(0, 3).Draw(t, "hotSel") > 0 {
				op.Key = 0
			} else {
				op.Key = rapid.IntRange(0, 5).Draw(t, "key")
			}
			if k == "set" {
				op.Len = GenLen(t, o.BigContent)
				if rapid.IntRange(0, 5).Draw(t, "viaSel") == 0 {
					op.Via, op.Split = GenVia(t, op.Len)
				}
			}
			if o.LateWeight > 0 && rapid.IntRange(1, 100).Draw(t, "late") <= o.LateWeight {
				if rapid.IntRange(0, 4).Draw(t, "ghost") == 0 {
					op.Ghost = true
				} else {
					op.Late = true
				}
			}
		}
		ops = append(ops, op)
	}
	return ops
}
