package seq

import "pgregory.net/rapid"

// TxGenOpts shapes generated transactional histories.
type TxGenOpts struct {
	MinOps, MaxOps   int
	MinKeys, MaxKeys int
	Weights          map[string]int // op kind -> weight
	LateWeight       int            // weight of an op addressed to an ended / unknown transaction (C13)
	BigContent       bool
}

func weighted(w map[string]int, order []string) []string {
	var out []string
	for _, k := range order {
		for i := 0; i < w[k]; i++ {
			out = append(out, k)
		}
	}
	return out
}

var opOrder = []string{"begin", "set", "del", "get", "getr", "keys", "commit", "rollback", "gc", "reopen", "otherdb"}

// GenTxOps draws a transactional history.
func GenTxOps(t *rapid.T, o TxGenOpts) []Op {
	kinds := weighted(o.Weights, opOrder)
	n := rapid.IntRange(o.MinOps, o.MaxOps).Draw(t, "nops")
	// in a fifth of the cases concentrate the writes on one key so that it gets many versions
	hotKey := rapid.IntRange(0, 4).Draw(t, "hot") == 0
	var ops []Op
	for i := 0; i < n; i++ {
		k := rapid.SampledFrom(kinds).Draw(t, "kind")
		op := Op{K: k}
		switch k {
		case "begin":
			op.Lvl = rapid.IntRange(0, 4).Draw(t, "lvl")
		case "gc", "reopen", "otherdb":
		default:
			// a third of the operations are autocommit, the rest go to one of the open transactions
			if rapid.IntRange(0, 2).Draw(t, "auto") > 0 {
				op.H = rapid.IntRange(1, 6).Draw(t, "actor")
			}
			if hotKey && rapid.IntRange(0, 3).Draw(t, "hotSel") > 0 {
				op.Key = 0
			} else {
				op.Key = rapid.IntRange(0, 5).Draw(t, "key")
			}
			if (k == "get" || k == "getr" || k == "del") && rapid.IntRange(0, 9).Draw(t, "emptyKey") == 0 {
				op.Key = -1 // the empty key: never stored, but the transaction is still looked up first
			}
			if k == "set" {
				op.Same = rapid.IntRange(0, 9).Draw(t, "sameBytes") == 0
				op.Len = GenLen(t, o.BigContent)
				if rapid.IntRange(0, 5).Draw(t, "viaSel") == 0 {
					op.Via, op.Split = GenVia(t, op.Len)
					op.CancelClose = GenCancelClose(t, op.Via)
					op.Src = GenSrc(t, op.Via)
				}
			}
			if o.LateWeight > 0 && rapid.IntRange(1, 100).Draw(t, "late") <= o.LateWeight {
				if rapid.IntRange(0, 4).Draw(t, "ghost") == 0 {
					op.Ghost = true
				} else {
					op.Late = true
				}
			}
		}
		// now and then the caller's context is already cancelled (a request that timed out and runs its
		// deferred Rollback, say): the inline binding ignores the context, so nothing may change
		if k != "gc" && k != "reopen" && k != "otherdb" && rapid.IntRange(0, 11).Draw(t, "cctx") == 0 {
			op.Cctx = true
		}
		ops = append(ops, op)
	}
	return ops
}

// GenOvertakenCommit draws a fragment in which a ReadUncommitted/ReadCommitted transaction writes 1-3
// keys, somebody else then commits a newer value to one of them, and the transaction commits
// (successfully: no conflict rule at these levels): the commit's versions must win, now and after any
// reopen or crash, although they were written first.
func GenOvertakenCommit(t *rapid.T) []Op {
	ops := []Op{{K: "begin", Lvl: rapid.SampledFrom([]int{0, 1, 4}).Draw(t, "ocLvl")}}
	nkeys := rapid.IntRange(1, 3).Draw(t, "ocKeys")
	for k := 0; k < nkeys; k++ {
		ops = append(ops, Op{K: "set", Last: true, Key: k, Len: rapid.IntRange(1, 30).Draw(t, "ocLen")})
	}
	for n := rapid.IntRange(1, 2).Draw(t, "ocOthers"); n > 0; n-- {
		o := Op{K: "set", Key: rapid.IntRange(0, nkeys-1).Draw(t, "ocKey"), Len: rapid.IntRange(1, 30).Draw(t, "ocLen2")}
		if rapid.IntRange(0, 3).Draw(t, "ocDel") == 0 {
			o = Op{K: "del", Key: o.Key}
		}
		ops = append(ops, o)
	}
	return append(ops, Op{K: "commit", Last: true})
}

// GenConflictScenario draws a short scripted fragment in which a snapshot transaction writes keys
// while others commit to some of them, then commits: the if-and-only-if of the conflict rule.
func GenConflictScenario(t *rapid.T) []Op {
	var ops []Op
	lvl := rapid.SampledFrom([]int{2, 3, 2, 3, 1, 0}).Draw(t, "scLvl")
	ops = append(ops, Op{K: "begin", Lvl: lvl})
	nkeys := rapid.IntRange(1, 3).Draw(t, "scKeys")
	write := func(key int) Op {
		if rapid.IntRange(0, 4).Draw(t, "scDel") == 0 {
			if rapid.IntRange(0, 5).Draw(t, "scEmptyKey") == 0 {
				return Op{K: "del", Key: -1} // the empty key: only Delete accepts it
			}
			return Op{K: "del", Key: key}
		}
		return Op{K: "set", Key: key, Len: rapid.IntRange(0, 20).Draw(t, "scLen"), Same: rapid.IntRange(0, 5).Draw(t, "scSame") == 0}
	}
	// the snapshot transaction's own writes (before and/or after the interfering commits)
	early := rapid.Bool().Draw(t, "scEarly")
	if early {
		for k := 0; k < nkeys; k++ {
			o := write(k)
			o.Last = true
			ops = append(ops, o)
		}
	}
	// interference: on which of the keys, by whom
	for k := 0; k < nkeys+1; k++ {
		switch rapid.IntRange(0, 4).Draw(t, "scInterf") {
		case 0: // autocommit write
			ops = append(ops, write(k))
		case 1: // another transaction commits a write
			ops = append(ops, Op{K: "begin", Lvl: rapid.IntRange(0, 3).Draw(t, "scLvl2")})
			o := write(k)
			o.Last = true
			ops = append(ops, o, Op{K: "commit", Last: true})
		case 2: // another transaction writes and rolls back: no conflict
			ops = append(ops, Op{K: "begin", Lvl: rapid.IntRange(0, 3).Draw(t, "scLvl3")})
			o := write(k)
			o.Last = true
			ops = append(ops, o, Op{K: "rollback", Last: true})
		}
	}
	if !early || rapid.Bool().Draw(t, "scLate") {
		for k := 0; k < nkeys; k++ {
			o := write(k)
			o.Last = true
			ops = append(ops, o)
		}
	}
	if rapid.IntRange(0, 5).Draw(t, "scGC") == 0 {
		ops = append(ops, Op{K: "gc"})
	}
	ops = append(ops, Op{K: "commit", Last: true})
	return ops
}

// GenLateOps draws operations addressed to the transaction that ended most recently.
func GenLateOps(t *rapid.T) []Op {
	var ops []Op
	for n := rapid.IntRange(1, 5).Draw(t, "nlate"); n > 0; n-- {
		k := rapid.SampledFrom([]string{"get", "getr", "keys", "commit", "rollback", "set", "del", "get", "commit"}).Draw(t, "lateKind")
		op := Op{K: k, Late: true, Recent: true, Key: rapid.IntRange(0, 3).Draw(t, "lateKey")}
		if k == "set" {
			op.Len = rapid.IntRange(0, 9).Draw(t, "lateLen")
		}
		ops = append(ops, op)
	}
	return ops
}

// GenCollectorScenario draws a fragment in which the collector has something to remove while
// transactions are open: versions pile up, an old transaction ends, a younger one stays open.
func GenCollectorScenario(t *rapid.T) []Op {
	var ops []Op
	key := rapid.IntRange(0, 2).Draw(t, "gcKey")
	w := func() Op {
		if rapid.IntRange(0, 5).Draw(t, "gcDel") == 0 {
			return Op{K: "del", Key: key}
		}
		return Op{K: "set", Key: key, Len: rapid.IntRange(0, 12).Draw(t, "gcLen")}
	}
	for n := rapid.IntRange(1, 3).Draw(t, "gcPre"); n > 0; n-- {
		ops = append(ops, w())
	}
	ops = append(ops, Op{K: "begin", Lvl: rapid.IntRange(0, 3).Draw(t, "gcLvl1")})
	for n := rapid.IntRange(1, 3).Draw(t, "gcMid"); n > 0; n-- {
		ops = append(ops, w())
	}
	ops = append(ops, Op{K: "begin", Lvl: rapid.SampledFrom([]int{2, 3, 2, 1}).Draw(t, "gcLvl2")})
	for n := rapid.IntRange(0, 2).Draw(t, "gcPost"); n > 0; n-- {
		ops = append(ops, w())
	}
	if rapid.Bool().Draw(t, "gcEarly") {
		ops = append(ops, Op{K: "gc"}) // nothing past the older transaction may go
	}
	// the older of the two ends: H=1 addresses the first open transaction
	ops = append(ops, Op{K: rapid.SampledFrom([]string{"commit", "rollback"}).Draw(t, "gcEnd"), H: 1}, Op{K: "gc"})
	for n := rapid.IntRange(0, 2).Draw(t, "gcTail"); n > 0; n-- {
		ops = append(ops, w(), Op{K: "gc"})
	}
	return ops
}
