package seq

import (
	"fmt"
	"unicode/utf8"

	"github.com/glebziz/fs_db/internal/verifh/ev"
)

// Exec runs one E1 case: every op is applied to fs_db and to the model, the op's own result is
// compared, and after every step the profile's read-back compares what every actor can read.
func Exec(c Case) *ev.Result {
	r := &ev.Result{}
	w, err := NewWorld(c, r)
	if err != nil {
		r.Failf("opening a fresh database failed: %v", err)
		return r
	}
	defer w.Close()
	for i, op := range c.Ops {
		if !w.Apply(i, op) {
			break
		}
		what := fmt.Sprintf("read-back after step %d (%s)", i, op.K)
		ok := true
		switch c.Prof {
		case "c03":
			ok = w.ReadBackAuto(what)
		default:
			ok = w.ReadBack(what)
		}
		if !ok {
			break
		}
	}
	if r.Fail == "" {
		w.drainReaders("at the end of the history", true)
	}
	finish(w, r)
	return r
}

// finish evaluates the profile's non-triviality rule and class labels from the statistics.
func finish(w *World, r *ev.Result) {
	st := w.Stats
	for k, v := range st {
		if v > 0 {
			r.Class(k)
		}
	}
	for _, k := range w.Case.Keys {
		if !utf8.ValidString(k) {
			r.Class("non-utf8-key-in-pool")
			break
		}
	}
	switch w.Case.Prof {
	case "c01":
		r.NonTrivial = (st["overwrite"] > 0 || st["recreate"] > 0) && st["big"] > 0
	case "c02":
		r.NonTrivial = st["two-levels-open"] > 0 && st["gc-while-snapshot-behind-2-versions"] > 0
	case "c03":
		r.NonTrivial = st["conflict-on-one-of-many"] > 0 || (st["commit-ok-multikey"] > 0 && st["commit-ok"]+st["commit-conflict"] >= 2)
	case "c09":
		r.NonTrivial = st["gc-collected-with-open-tx"] > 0
	case "c13":
		r.NonTrivial = st["late-write-with-RU-observer"] > 0
	case "c11":
		r.NonTrivial = st["begin"] > 0 && (st["err-result"] > 0 || st["commit-conflict"] > 0 || st["late-write"] > 0)
	case "c14":
		r.NonTrivial = st["overwrite"] > 0 && st["del"] > 0 && st["rollback"] > 0 && st["commit-conflict"] > 0 && st["intx-superseded"] > 0
	case "c17":
		r.NonTrivial = st["dir-reached-limit"] > 0 && st["rotated"] > 0
	}
}

// ExecC09 is Exec plus the metamorphic form of C09: the same program with every collector step
// removed must produce exactly the same observations.
func ExecC09(c Case) *ev.Result {
	var with, without []string
	r := execObs(c, &with)
	if r.Fail != "" {
		return r
	}
	c2 := c
	c2.Ops = nil
	for _, op := range c.Ops {
		if op.K == "gc" {
			op = Op{K: "nop"} // keeps step numbers (and with them the generated contents) aligned
		}
		c2.Ops = append(c2.Ops, op)
	}
	r2 := execObs(c2, &without)
	if r2.Fail != "" {
		r.Failf("program without collector steps: %s", r2.Fail)
		return r
	}
	if len(with) != len(without) {
		r.Failf("metamorphic: %d observations with the collector, %d without", len(with), len(without))
		return r
	}
	for i := range with {
		if with[i] != without[i] {
			r.Failf("metamorphic: observation %d differs: with collector %q, without %q", i, with[i], without[i])
			return r
		}
	}
	return r
}

func execObs(c Case, obs *[]string) *ev.Result {
	r := &ev.Result{}
	w, err := NewWorld(c, r)
	if err != nil {
		r.Failf("opening a fresh database failed: %v", err)
		return r
	}
	defer w.Close()
	w.Obs = obs
	for i, op := range c.Ops {
		var before []string
		if op.K == "gc" {
			// all reads immediately before the collector run as well (they are repeated after it)
			if !w.ReadBack(fmt.Sprintf("read-back before collector step %d", i)) {
				break
			}
			before = append(before, (*obs)[len(*obs)-w.lastReadBackLen:]...)
			*obs = (*obs)[:len(*obs)-w.lastReadBackLen]
		}
		if !w.Apply(i, op) {
			break
		}
		if op.K == "nop" {
			continue
		}
		if !w.ReadBack(fmt.Sprintf("read-back after step %d (%s)", i, op.K)) {
			break
		}
		if op.K == "gc" {
			// the property itself, with no model in between: nothing happened but a collector run, so every
			// actor reads exactly what it read immediately before it (also where the model leaves a choice)
			after := (*obs)[len(*obs)-w.lastReadBackLen:]
			if len(after) != len(before) {
				r.Failf("collector step %d: %d observations before the run, %d after", i, len(before), len(after))
				break
			}
			for j := range after {
				if after[j] != before[j] {
					r.Failf("collector step %d changed what a reader sees: before the run %q, after it %q", i, before[j], after[j])
					break
				}
			}
			if r.Fail != "" {
				break
			}
			*obs = (*obs)[:len(*obs)-w.lastReadBackLen]
		}
	}
	finish(w, r)
	return r
}
