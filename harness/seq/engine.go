// Package seq is engine E1: model-based stateful testing of the assembled fs_db stack
// (real Badger, real files, real worker pool) through the public client API.
package seq

import (
	"bufio"
	"bytes"
	"context"
	"crypto/sha256"
	"encoding/hex"
	"errors"
	"fmt"
	"google.golang.org/grpc/metadata"
	"io"
	"log/slog"
	"os"
	"path/filepath"
	"sort"
	"strings"
	"sync"
	"sync/atomic"
	"time"

	"github.com/glebziz/fs_db"
	"github.com/glebziz/fs_db/config"
	"github.com/glebziz/fs_db/internal/di"
	fsmodel "github.com/glebziz/fs_db/internal/model"
	"github.com/glebziz/fs_db/internal/verifh/ev"
	"github.com/glebziz/fs_db/internal/verifh/model"
	"github.com/glebziz/fs_db/internal/verifhook"
	"github.com/glebziz/fs_db/pkg/inline"
	inlinedb "github.com/glebziz/fs_db/pkg/inline/db"
)

func init() {
	// fs_db logs background job failures through slog; keep the test output readable
	slog.SetDefault(slog.New(slog.NewTextHandler(io.Discard, nil)))
}

// Op is one step of an abstract program. Selectors (H, Key) are resolved modulo what exists
// at run time, so every sub-list of a program is again a valid program.
type Op struct {
	K string `json:"k"`           // begin set del get getr keys commit rollback gc reopen otherdb burst delburst txburst files
	H int    `json:"h,omitempty"` // actor selector: 0 = autocommit, else the (H-1 mod n)-th open transaction
	// CancelClose (Via "create", inline binding): the context given to Create is cancelled after the last Write,
	// before Close - a handle that outlives the request it was created in. The inline binding ignores contexts.
	CancelClose bool   `json:"cancel_close,omitempty"`
	Last        bool   `json:"last,omitempty"`   // address the most recently begun transaction that is still open
	Late        bool   `json:"late,omitempty"`   // C13: address an ended transaction instead of an open one
	Recent      bool   `json:"recent,omitempty"` // with Late: the transaction that ended most recently
	Ghost       bool   `json:"ghost,omitempty"`  // C13: address a transaction id that never existed
	Key         int    `json:"key,omitempty"`    // key selector (mod len(keys)); -1 = the empty key; -2 = a never-written key
	Len         int    `json:"len,omitempty"`    // content length of a write
	Lvl         int    `json:"lvl,omitempty"`    // begin: 0..3 = level, 4 = Begin() without argument (default level)
	Via         string `json:"via,omitempty"`    // write path: "" = Set, "reader" = SetReader, "create" = Create+Write*+Close
	Same        bool   `json:"same,omitempty"`   // set: write the bytes the actor currently reads for the key
	Src         string `json:"src,omitempty"`    // reader: the concrete source type ("" = the harness's own chunk reader); see World.source
	Split       []int  `json:"split,omitempty"`  // reader: max bytes per Read; create: sizes of the Write calls (cyclic)
	N           int    `json:"n,omitempty"`      // burst: number of keys
	Cctx        bool   `json:"cctx,omitempty"`   // the caller's context is already cancelled when the call is made (inline binding only: it ignores contexts)
}

// Case is a generated test case for E1.
type Case struct {
	Prof string   `json:"prof"`
	Keys []string `json:"keys"`
	// KeysHex: further keys, hex encoded because they are not valid UTF-8 (a Go string may hold any
	// bytes, JSON cannot); appended to Keys when the world is built
	KeysHex  []string `json:"keys_hex,omitempty"`
	Ops      []Op     `json:"ops"`
	Roots    int      `json:"roots,omitempty"`
	MaxDir   uint64   `json:"max_dir,omitempty"`
	External bool     `json:"external,omitempty"`
	// Foreign: the storage roots are not empty when the database is first opened: they hold a file, a
	// directory with a file in it and an empty directory that are none of fs_db's business (a mount point's
	// lost+found, somebody's notes). fs_db must leave them alone and must not put content there.
	Foreign bool `json:"foreign,omitempty"`
	// FastGC: the database's periodic collector runs every millisecond (in the background, at moments of its own)
	FastGC bool `json:"fast_gc,omitempty"`
	// OddPath: the database and its roots live under a directory whose name contains glob and format metacharacters
	OddPath bool `json:"odd_path,omitempty"`
	// ShareRoot (C05): the other databases of the process (op otherdb, Others) keep their contents under the
	// first storage root of the database under test (their metadata directories are their own)
	ShareRoot bool `json:"share_root,omitempty"`
	// CallerMD: every context the caller passes already carries outgoing gRPC metadata of the application
	CallerMD bool `json:"caller_md,omitempty"`
	Others   int  `json:"others,omitempty"` // C05: other databases opened in the same process first
	Variant  int  `json:"variant,omitempty"`
	Workers  int  `json:"pool_workers,omitempty"` // worker pool size of the database (0 = 2); 1 makes cleanup jobs take the deferred path
	// RootStyle: how the root directories are spelled in the configuration: 0 canonical, 1 trailing
	// slash, 2 doubled slash, 3 a "/./" segment (all name the same directories)
	RootStyle int `json:"root_style,omitempty"`
}

// KnownLateWrite is the id of the known finding "writes through ended handles are accepted".
const KnownLateWrite = "C13-late-write-accepted"

const neverKey = "\x7fnever-written-key"

type handle struct {
	id    int // model id
	tx    fs_db.Tx
	level int
}

// World is one database under test together with its model.
type World struct {
	Case    Case
	R       *ev.Result
	M       *model.M
	Dir     string
	Cfg     config.Config
	DB      fs_db.DB
	Cont    *di.Container
	ext     *extServer
	handles map[int]*handle
	byHash  map[[32]byte]string // content hash -> description of the write that produced it
	step    int
	ctx     context.Context

	// statistics for non-triviality rules
	Stats map[string]int
	foreignIn []string // files planted inside content directories (op foreignin)
	staleIDs  []string // gRPC: ids of transactions begun and ended on earlier incarnations of the server
	probed    bool
	// Obs, when non-nil, receives every observation (for metamorphic comparisons)
	Obs             *[]string
	noHook          bool
	lastReadBackLen int

	removedInGC  int64
	inGC         atomic.Bool
	held         []heldRead   // results of earlier reads, re-verified after every later read
	heldReaders  []heldReader // open GetReader results that are read some steps later
	bulkBytes    map[int]int  // per transaction: bytes of key names written by txburst steps
	commitTooBig bool         // the last Commit failed because the transaction exceeds Badger's transaction size
	prevMu       sync.Mutex   // doWrite is called from several goroutines by the race engine
	prevFile     fs_db.File   // the last created file whose Close succeeded (closed once more during a later Create)
}

var dirCounter atomic.Int64

func dbRoot() string {
	d := os.Getenv("VERIF_DB_ROOT")
	if d == "" {
		d = os.TempDir()
	}
	return d
}

func newWorldStruct(c Case, r *ev.Result) *World {
	if c.Roots < 1 {
		c.Roots = 1
	}
	if len(c.KeysHex) > 0 {
		keys := append([]string(nil), c.Keys...)
		for _, h := range c.KeysHex {
			if b, err := hex.DecodeString(h); err == nil && len(b) > 0 {
				keys = append(keys, string(b))
			}
		}
		c.Keys, c.KeysHex = keys, nil
	}
	ctx := context.Background()
	if c.CallerMD {
		// an application that sends gRPC metadata of its own with every call (request id, credentials)
		ctx = metadata.AppendToOutgoingContext(ctx, "x-request-id", "42", "authorization", "bearer t0k3n")
	}
	return &World{Case: c, R: r, M: model.New(), handles: map[int]*handle{}, byHash: map[[32]byte]string{}, Stats: map[string]int{}, ctx: ctx}
}

// gcPeriod: the database's own periodic collector is normally out of the way (one hour); with FastGC it runs
// every millisecond in the background of the whole history - whenever it runs, it must not change what
// anybody reads, and transactions simply get old (hundreds of collector periods) while the history goes on.
func gcPeriod(c Case) time.Duration {
	if c.FastGC {
		return time.Millisecond
	}
	return time.Hour
}

func b2i(b bool) int {
	if b {
		return 1
	}
	return 0
}

func (w *World) setCfg() {
	var roots []string
	for i := 0; i < w.Case.Roots; i++ {
		p := filepath.Join(w.Dir, fmt.Sprintf("root%d", i))
		switch w.Case.RootStyle {
		case 1:
			p += "/"
		case 2:
			p = w.Dir + "//" + fmt.Sprintf("root%d", i)
		case 3:
			p = w.Dir + "/./" + fmt.Sprintf("root%d", i)
		}
		roots = append(roots, p)
	}
	w.Cfg = config.Config{
		Storage: config.Storage{DbPath: filepath.Join(w.Dir, "db"), MaxDirCount: w.Case.MaxDir, RootDirs: roots, GCPeriod: gcPeriod(w.Case)},
		WPool:   config.WPool{NumWorkers: max(w.Case.Workers, 0) + 2*b2i(w.Case.Workers <= 0), SendDuration: time.Millisecond},
	}
}

// NewWorldNoHook is NewWorld without the hook that counts collector removals (engine E4 installs
// its own hook handler).
func NewWorldNoHook(c Case, r *ev.Result) (*World, error) {
	w := newWorldStruct(c, r)
	w.noHook = true
	w.Dir = filepath.Join(dbRoot(), fmt.Sprintf("w%d-%d", os.Getpid(), dirCounter.Add(1)))
	if err := os.MkdirAll(w.Dir, 0o755); err != nil {
		return nil, err
	}
	w.setCfg()
	if err := w.open(); err != nil {
		os.RemoveAll(w.Dir)
		return nil, err
	}
	return w, nil
}

// NewWorld creates fresh directories and opens the database.
func NewWorld(c Case, r *ev.Result) (*World, error) {
	w := newWorldStruct(c, r)
	w.Dir = filepath.Join(dbRoot(), fmt.Sprintf("w%d-%d", os.Getpid(), dirCounter.Add(1)))
	if c.OddPath {
		// characters that are ordinary in a directory name and special in glob patterns, format strings, shells
		w.Dir = filepath.Join(dbRoot(), fmt.Sprintf("w %d [%d]*?%%d{a,b}", os.Getpid(), dirCounter.Add(1)))
	}
	if err := os.MkdirAll(w.Dir, 0o755); err != nil {
		return nil, err
	}
	w.setCfg()
	if c.Foreign {
		if err := w.plantForeign(); err != nil {
			return nil, err
		}
	}
	if err := w.open(); err != nil {
		os.RemoveAll(w.Dir)
		return nil, err
	}
	verifhook.SetPoint(func(kind, arg string) error {
		if kind == "os.remove" && w.inGC.Load() {
			atomic.AddInt64(&w.removedInGC, 1)
		}
		return nil
	})
	return w, nil
}

func (w *World) open() (err error) {
	// fs_db panics (lo.Must) when Badger cannot be opened: report that as an error of Open
	defer func() {
		if p := recover(); p != nil {
			err = fmt.Errorf("open panicked: %v", p)
		}
	}()
	if w.Case.External {
		return w.openExternal()
	}
	cfg := w.Cfg
	cfg.Storage.RootDirs = append([]string(nil), w.Cfg.Storage.RootDirs...)
	db, err := inline.Open(w.ctx, cfg)
	if err != nil {
		return fmt.Errorf("inline.Open: %w", err)
	}
	w.DB = db
	w.Cont = inlinedb.VerifContainer(db)
	if w.Cont == nil {
		return errors.New("harness: cannot reach the DI container of the inline db")
	}
	return nil
}

// Close closes the database and removes its directories.
func (w *World) Close() {
	for _, h := range w.heldReaders {
		h.rc.Close()
	}
	w.heldReaders = nil
	if !w.noHook {
		verifhook.SetPoint(nil)
	}
	w.closeDB()
	os.RemoveAll(w.Dir)
}

func (w *World) closeDB() {
	if w.ext != nil {
		w.ext.stop()
		w.ext = nil
		w.DB = nil
		return
	}
	if w.DB != nil {
		_ = w.DB.Close()
		w.DB = nil
	}
}

// Reopen closes and opens the database again (model: open transactions vanish).
func (w *World) Reopen() error {
	w.prevMu.Lock()
	w.prevFile = nil // handles of the old incarnation are not used again
	w.prevMu.Unlock()
	if w.Case.External {
		// the server goes away: readers it is still streaming to are read out first, and the handles
		// of the client that was connected to it are not used again (a new client connects afterwards)
		if !w.drainReaders("before the server is stopped", true) {
			return errors.New(w.R.Fail)
		}
		w.probeTxID()
		for _, h := range w.handles {
			h.tx = nil
		}
	}
	w.closeDB()
	w.M.Reopen()
	// handles of vanished transactions stay addressable as "late" handles
	return w.open()
}

// GC runs the old-version collector synchronously.
func (w *World) GC() error {
	w.inGC.Store(true)
	before := atomic.LoadInt64(&w.removedInGC)
	err := w.Cont.Cleaner().DeleteOld(w.ctx)
	w.inGC.Store(false)
	if n := atomic.LoadInt64(&w.removedInGC) - before; n > 0 {
		w.Stats["gc-collected"] += int(n)
		if len(w.M.OpenTxs()) > 0 {
			w.Stats["gc-collected-with-open-tx"]++
		}
	}
	return err
}

// ---- helpers -----------------------------------------------------------------------------------

var sentinels = []struct {
	e error
	c model.Err
}{
	{fs_db.ErrNotFound, model.ErrNotFound}, {fs_db.ErrEmptyKey, model.ErrEmptyKey}, {fs_db.ErrTxNotFound, model.ErrTxNotFound},
	{fs_db.ErrTxSerialization, model.ErrTxSerialize}, {fs_db.ErrNoFreeSpace, model.ErrNoFreeSpace}, {fs_db.ErrTxAlreadyExists, model.ErrTxExists},
	{fs_db.ErrHeaderNotFound, model.ErrHeader}, {fs_db.ErrUnknown, model.ErrUnknown},
}

// Class maps an error to its class as judged by errors.Is against the exported sentinels.
func Class(err error) model.Err {
	if err == nil {
		return model.OK
	}
	for _, s := range sentinels {
		if errors.Is(err, s.e) {
			return s.c
		}
	}
	return model.ErrOther
}

func (w *World) key(sel int) string {
	switch {
	case sel == -1:
		return ""
	case sel == -2 || len(w.Case.Keys) == 0:
		return neverKey
	}
	if sel < 0 {
		sel = -sel
	}
	return w.Case.Keys[sel%len(w.Case.Keys)]
}

// bulkKey is the j-th key of the burst of step i: a name of n bytes.
func (w *World) bulkKey(i, j, n int) string {
	head := fmt.Sprintf("bulk-%d-%05d-", i, j)
	if n > len(head) {
		return head + strings.Repeat("k", n-len(head))
	}
	return head
}

func (w *World) describe(b []byte) string {
	if d, ok := w.byHash[sha256.Sum256(b)]; ok {
		return fmt.Sprintf("%d bytes = %s", len(b), d)
	}
	return fmt.Sprintf("%d bytes matching no complete written content (head %x)", len(b), head(b))
}

func head(b []byte) []byte {
	if len(b) > 12 {
		return b[:12]
	}
	return b
}

const ghostID = -1

func actorName(w *World, id int) string {
	if id == 0 {
		return "autocommit"
	}
	if id == ghostID {
		return "unknown-tx"
	}
	h := w.handles[id]
	lv := "?"
	if h != nil {
		lv = []string{"RU", "RC", "RR", "SER"}[h.level]
	}
	return fmt.Sprintf("tx%d[%s]", id, lv)
}

func (w *World) store(id int) fs_db.Store {
	if id == 0 {
		return w.DB
	}
	if id == ghostID {
		return w.ghostTx()
	}
	return w.handles[id].tx
}

type ghostOps struct {
	w  *World
	id string
}

func (g ghostOps) Commit(ctx context.Context) error {
	if g.w.ext != nil {
		return g.w.ext.rawCommit(ctx, g.id)
	}
	return g.w.Cont.Transaction().Commit(fsmodel.StoreTxId(ctx, g.id))
}

func (g ghostOps) Rollback(ctx context.Context) error {
	if g.w.ext != nil {
		return g.w.ext.rawRollback(ctx, g.id)
	}
	return g.w.Cont.Transaction().Rollback(fsmodel.StoreTxId(ctx, g.id))
}

// ghostTx builds a transaction handle naming a transaction that never existed.
func (w *World) ghostTx() fs_db.Tx {
	id := fmt.Sprintf("deadbeef-0000-4000-8000-%012d", w.step)
	if w.ext != nil && len(w.staleIDs) > 0 && w.step%2 == 0 {
		// the id of a transaction that a previous incarnation of the server issued (and saw end): a client
		// that kept its handle across the restart. For the new server it is an unknown transaction.
		id = w.staleIDs[w.step/2%len(w.staleIDs)]
		w.Stats["stale-id-from-before-restart"]++
	}
	return fs_db.CreateTx(w.DB, ghostOps{w, id}, func(ctx context.Context) context.Context {
		if w.ext != nil {
			return w.ext.txCtx(ctx, id)
		}
		return fsmodel.StoreTxId(ctx, id)
	})
}

func (w *World) txOps(id int) fs_db.TxOps {
	if id == ghostID {
		return w.ghostTx()
	}
	return w.handles[id].tx
}

// pickActor resolves an actor selector against the currently open transactions.
func (w *World) pickActor(op Op) (id int, ok bool) {
	if op.Ghost {
		return ghostID, true
	}
	if op.Late {
		var ended []int
		for _, id := range w.M.EndedTxs() {
			if h := w.handles[id]; h != nil && h.tx != nil { // handles do not survive a process restart
				ended = append(ended, id)
			}
		}
		if len(ended) == 0 {
			return 0, false
		}
		if op.Recent {
			best := ended[0]
			for _, id := range ended {
				if w.M.Tx(id).EndClk > w.M.Tx(best).EndClk {
					best = id
				}
			}
			return best, true
		}
		h := op.H
		if h < 0 {
			h = -h
		}
		return ended[h%len(ended)], true
	}
	open := w.M.OpenTxs()
	if op.Last {
		if len(open) == 0 {
			return 0, op.K != "commit" && op.K != "rollback"
		}
		return open[len(open)-1], true
	}
	h := op.H
	if h < 0 {
		h = -h
	}
	if h == 0 || len(open) == 0 {
		return 0, true
	}
	return open[(h-1)%len(open)], true
}

// chunkReader is a source for SetReader with every legal io.Reader habit: short reads (split > 0),
// reads of zero bytes without error (split == ZeroRead), and the final bytes delivered together with
// io.EOF (eofWithData) instead of a separate (0, io.EOF).
type chunkReader struct {
	b           []byte
	split       []int
	i           int
	eofWithData bool
}

// ZeroRead in a reader split list: this Read returns (0, nil).
const ZeroRead = -1

func (c *chunkReader) Read(p []byte) (int, error) {
	if len(c.b) == 0 {
		return 0, io.EOF
	}
	n := len(p)
	if len(c.split) > 0 {
		s := c.split[c.i%len(c.split)]
		c.i++
		if s == ZeroRead && c.i <= 4*len(c.split) {
			return 0, nil
		}
		if s > 0 && s < n {
			n = s
		}
	}
	if n > len(c.b) {
		n = len(c.b)
	}
	copy(p, c.b[:n])
	c.b = c.b[n:]
	if len(c.b) == 0 && c.eofWithData {
		return n, io.EOF
	}
	return n, nil
}

// source builds the io.Reader handed to SetReader. Src selects the concrete type: the standard library's
// readers have extra methods (Len, Size, WriteTo, ReadAt, Seek) that code may take shortcuts through, and a
// caller may hand over a reader it has already read a header from - what has to be stored is what is
// LEFT in the reader.
func (w *World) source(b []byte, op Op) io.Reader {
	own := append([]byte(nil), b...)
	junk := func(n int) []byte { // bytes the caller consumed itself before handing the reader over
		j := make([]byte, n)
		for i := range j {
			j[i] = byte(0xC0 + i%7)
		}
		return j
	}
	pre := 1 + (len(b)+w.step)%300
	switch op.Src {
	case "bytes":
		return bytes.NewReader(own)
	case "bytes-consumed":
		r := bytes.NewReader(append(junk(pre), own...))
		_, _ = io.CopyN(io.Discard, r, int64(pre))
		return r
	case "strings-consumed":
		r := strings.NewReader(string(junk(pre)) + string(own))
		_, _ = r.Seek(int64(pre), io.SeekStart)
		return r
	case "section":
		return io.NewSectionReader(bytes.NewReader(append(junk(pre), append(own, junk(17)...)...)), int64(pre), int64(len(own)))
	case "section-consumed":
		r := io.NewSectionReader(bytes.NewReader(append(junk(pre), own...)), 0, int64(pre+len(own)))
		_, _ = io.CopyN(io.Discard, r, int64(pre))
		return r
	case "buffer":
		return bytes.NewBuffer(own)
	case "bufio":
		return bufio.NewReaderSize(bytes.NewReader(own), 16+len(own)%5000)
	case "limited":
		return io.LimitReader(bytes.NewReader(append(own, junk(pre)...)), int64(len(own)))
	case "multi":
		h := len(own) / 2
		return io.MultiReader(bytes.NewReader(own[:h]), strings.NewReader(""), bytes.NewReader(own[h:]))
	case "pipe":
		pr, pw := io.Pipe()
		go func() { _, _ = pw.Write(own); pw.Close() }()
		return pr
	}
	return &chunkReader{b: own, split: op.Split, eofWithData: len(b)%2 == 1}
}

// takePrevFile hands out the remembered closed file for every other write (nil otherwise).
func (w *World) takePrevFile(n int) fs_db.File {
	w.prevMu.Lock()
	defer w.prevMu.Unlock()
	pf := w.prevFile
	if pf == nil || (w.step+n)%2 != 0 {
		return nil
	}
	w.prevFile = nil
	return pf
}

// doWrite performs a content write through the chosen path.
func (w *World) doWrite(s fs_db.Store, key string, b []byte, op Op) error {
	switch op.Via {
	case "reader":
		return s.SetReader(w.ctx, key, w.source(b, op))
	case "create":
		cctx, cancelCreate := w.ctx, func() {}
		if op.CancelClose && !w.Case.External {
			cctx, cancelCreate = context.WithCancel(w.ctx)
		}
		defer cancelCreate()
		f, err := s.Create(cctx, key)
		if err != nil {
			return err
		}
		if pf := w.takePrevFile(len(b)); pf != nil {
			// the habit "explicit Close, and a deferred Close that runs later": a handle that was closed
			// successfully is closed a second time while a file created after it is still open and unwritten.
			// The second Close must return and must not touch anything but its own (finished) file.
			done := make(chan struct{})
			go func() { _ = pf.Close(); close(done) }()
			select {
			case <-done:
			case <-time.After(30 * time.Second):
				return fmt.Errorf("harness watchdog: second Close of an already closed file has not returned after 30 s")
			}
		}
		rest := b
		var werr error
		// every piece goes through one scratch buffer that is overwritten as soon as Write has
		// returned, as io.Copy does: an io.Writer must not retain the slice it was given
		var scratch []byte
		write := func(p []byte) bool {
			if cap(scratch) < len(p) {
				scratch = make([]byte, len(p))
			}
			q := scratch[:len(p)]
			copy(q, p)
			_, werr = f.Write(q)
			for i := range q {
				q[i] ^= 0xA5
			}
			return werr == nil
		}
		if len(op.Split) == 0 {
			if len(rest) > 0 {
				write(rest)
			}
		} else {
			progress := false
			for i := 0; ; i++ {
				if len(rest) == 0 && i >= len(op.Split) {
					break // at least one pass over the split list, so trailing empty writes happen
				}
				n := op.Split[i%len(op.Split)]
				viaCopy := n >= CopyPiece
				if viaCopy {
					n -= CopyPiece
				}
				if n < 0 {
					n = 0
				}
				if n > len(rest) {
					n = len(rest)
				}
				if viaCopy {
					// a source without WriteTo: io.Copy drives the file (ReadFrom if it has one, else Write)
					_, werr = io.Copy(f, struct{ io.Reader }{bytes.NewReader(append([]byte(nil), rest[:n]...))})
					if werr != nil {
						break
					}
				} else if !write(rest[:n]) {
					break
				}
				rest = rest[n:]
				progress = progress || n > 0
				if (i+1)%len(op.Split) == 0 {
					if (!progress || i > 8192) && len(rest) > 0 {
						write(rest)
						rest = nil
					}
					progress = false
				}
			}
		}
		cancelCreate()
		// Close always returns (C12); one that has not after 30 s of a write of at most a few megabytes never will
		done := make(chan error, 1)
		go func() { done <- f.Close() }()
		var cerr error
		select {
		case cerr = <-done:
		case <-time.After(30 * time.Second):
			return fmt.Errorf("harness watchdog: Close of the file created for %q has not returned after 30 s (earlier Write error: %v)", key, werr)
		}
		if werr != nil {
			return werr
		}
		if cerr == nil {
			w.prevMu.Lock()
			w.prevFile = f
			w.prevMu.Unlock()
		}
		return cerr
	default:
		return s.Set(w.ctx, key, b)
	}
}

// readKey reads key through actor id, alternating between Get and GetReader.
func (w *World) readKey(id int, key string, useReader bool) ([]byte, error) {
	s := w.store(id)
	if !useReader {
		return s.Get(w.ctx, key)
	}
	rc, err := s.GetReader(w.ctx, key)
	if err != nil {
		return nil, err
	}
	if (w.step+len(key))%8 == 5 {
		// a caller that looks at the beginning only and closes the reader early; the content is then read
		// again completely and must begin with what the abandoned reader delivered
		head := make([]byte, 100)
		n, herr := io.ReadFull(rc, head)
		if cerr := rc.Close(); cerr != nil {
			return nil, fmt.Errorf("close of a partly read GetReader: %w", cerr)
		}
		if herr != nil && herr != io.EOF && herr != io.ErrUnexpectedEOF {
			return nil, fmt.Errorf("read from GetReader: %w", herr)
		}
		w.Stats["reader-closed-early"]++
		full, gerr := s.Get(w.ctx, key)
		if gerr != nil {
			return nil, fmt.Errorf("Get right after a partly read GetReader: %w", gerr)
		}
		if !bytes.HasPrefix(full, head[:n]) || (n < len(head) && n != len(full)) {
			return nil, fmt.Errorf("a partly read GetReader delivered %d bytes that are not the beginning of the %d bytes Get returns", n, len(full))
		}
		return full, nil
	}
	var b []byte
	var rerr error
	if (w.step+len(key))%8 == 3 {
		// a caller that looks at the first bytes (a magic number, say) and then hands the reader to io.Copy,
		// which uses the reader's WriteTo if it has one
		head := make([]byte, 16)
		n, herr := io.ReadFull(rc, head)
		var rest bytes.Buffer
		if herr == nil {
			_, rerr = io.Copy(&rest, rc)
		} else if herr != io.EOF && herr != io.ErrUnexpectedEOF {
			rerr = herr
		}
		b = append(head[:n], rest.Bytes()...)
		w.Stats["reader-sniffed-then-copied"]++
	} else {
		b, rerr = io.ReadAll(rc)
	}
	cerr := rc.Close()
	if rerr != nil {
		return nil, fmt.Errorf("read from GetReader: %w", rerr)
	}
	if cerr != nil {
		return nil, fmt.Errorf("close of GetReader: %w", cerr)
	}
	return b, nil
}

// heldReader is a reader handed out by GetReader and not consumed yet. fs_db opens the content file
// when it hands the reader out, so whatever happens to the key afterwards (overwrite, delete, end of
// the transaction, collector) the reader must still deliver exactly the content it was opened on.
type heldReader struct {
	rc     io.ReadCloser
	want   []byte
	desc   string
	opened int
	due    int
}

func (w *World) holdReader(id int, key string, want []byte) {
	// contents of a megabyte or more are always held (a reader of a large file that is superseded and collected meanwhile)
	if len(w.heldReaders) >= 2 || ((w.step+len(key)+len(want))%3 != 0 && len(want) < 1<<20) {
		return
	}
	rc, err := w.store(id).GetReader(w.ctx, key)
	if err != nil {
		return // the read-back that follows reports it
	}
	w.heldReaders = append(w.heldReaders, heldReader{rc: rc, want: want, opened: w.step, due: w.step + 1 + len(want)%3,
		desc: fmt.Sprintf("%s GetReader(%q) opened at step %d", actorName(w, id), key, w.step)})
	w.Stats["reader-held"]++
}

// drainReaders reads the held readers that are due (all of them when all is set).
func (w *World) drainReaders(what string, all bool) bool {
	keep := w.heldReaders[:0]
	ok := true
	for _, h := range w.heldReaders {
		if !all && w.step < h.due {
			keep = append(keep, h)
			continue
		}
		b, err := io.ReadAll(h.rc)
		h.rc.Close()
		if !ok {
			continue
		}
		if err != nil {
			w.R.Failf("%s: reading from %s, %d steps later, failed: %v (the content it was opened on is %s)", what, h.desc, w.step-h.opened, err, w.describe(h.want))
			ok = false
		} else if !bytes.Equal(b, h.want) {
			w.R.Failf("%s: %s, read %d steps later, returned %s; it was opened on %s", what, h.desc, w.step-h.opened, w.describe(b), w.describe(h.want))
			ok = false
		}
	}
	w.heldReaders = keep
	return ok
}

// checkRead compares one read with the model. what describes the context for the message.
// heldRead is a result handed out by an earlier Get/GetReader: the slice belongs to the caller, so
// no later call may change it.
type heldRead struct {
	b    []byte
	sum  [32]byte
	desc string
}

const heldReads = 4

func (w *World) checkHeld(what string) bool {
	for _, h := range w.held {
		if sha256.Sum256(h.b) != h.sum {
			w.R.Failf("%s: the bytes returned earlier by %s changed after later calls (the caller's slice is shared with something else)", what, h.desc)
			return false
		}
	}
	return true
}

func (w *World) hold(b []byte, desc string) {
	if len(b) == 0 {
		return
	}
	if len(w.held) >= heldReads {
		w.held = w.held[1:]
	}
	w.held = append(w.held, heldRead{b: b, sum: sha256.Sum256(b), desc: desc})
}

func (w *World) checkRead(id int, key string, useReader bool, what string) bool {
	got, err := w.readKey(id, key, useReader)
	if !w.checkHeld(what) {
		return false
	}
	if err == nil && !useReader {
		w.hold(got, fmt.Sprintf("%s Get(%q) at step %d", actorName(w, id), key, w.step))
	}
	if w.Obs != nil {
		h := sha256.Sum256(got)
		*w.Obs = append(*w.Obs, fmt.Sprintf("%s read %q -> %s %x", actorName(w, id), key, Class(err), h[:6]))
	}
	cands, merr := w.M.Read(id, key)
	cls := Class(err)
	if cls != model.OK {
		w.Stats["err-result"]++
	}
	if merr != model.OK {
		if cls != merr {
			w.R.Failf("%s: %s read %q: got %s (%v), want %s", what, actorName(w, id), key, cls, err, merr)
			return false
		}
		return true
	}
	for _, c := range cands {
		if c.Del && cls == model.ErrNotFound {
			return true
		}
		if !c.Del && err == nil && bytes.Equal(got, model.Bytes(c)) {
			if useReader && len(cands) == 1 {
				w.holdReader(id, key, got)
			}
			return true
		}
	}
	var want []string
	for _, c := range cands {
		if c.Del {
			want = append(want, "ErrNotFound")
		} else {
			want = append(want, w.describe(model.Bytes(c)))
		}
	}
	gotS := string(cls)
	if err == nil {
		gotS = w.describe(got)
	} else {
		gotS = fmt.Sprintf("%s (%v)", cls, err)
	}
	via := "Get"
	if useReader {
		via = "GetReader"
	}
	w.R.Failf("%s: %s %s(%q) returned %s; the model allows {%s}", what, actorName(w, id), via, key, gotS, strings.Join(want, " | "))
	return false
}

// checkKeys compares GetKeys of actor id with the model.
func (w *World) checkKeys(id int, what string) bool {
	got, err := w.store(id).GetKeys(w.ctx)
	if w.Obs != nil {
		*w.Obs = append(*w.Obs, fmt.Sprintf("%s keys -> %s %q", actorName(w, id), Class(err), got))
	}
	must, may, merr := w.M.Keys(id)
	if merr != model.OK || err != nil {
		if Class(err) != merr {
			w.R.Failf("%s: %s GetKeys: got %s (%v), want %s", what, actorName(w, id), Class(err), err, merr)
			return false
		}
		return true
	}
	if !sort.StringsAreSorted(got) {
		w.R.Failf("%s: %s GetKeys is not sorted: %q", what, actorName(w, id), got)
		return false
	}
	seen := map[string]bool{}
	for _, k := range got {
		if seen[k] {
			w.R.Failf("%s: %s GetKeys lists %q twice: %q", what, actorName(w, id), k, got)
			return false
		}
		seen[k] = true
	}
	allowed := map[string]bool{}
	for _, k := range must {
		allowed[k] = true
		if !seen[k] {
			w.R.Failf("%s: %s GetKeys = %q misses %q (model: must list %q, may list %q)", what, actorName(w, id), got, k, must, may)
			return false
		}
	}
	for _, k := range may {
		allowed[k] = true
	}
	for _, k := range got {
		if !allowed[k] {
			w.R.Failf("%s: %s GetKeys = %q lists %q which is not readable there (model: must list %q, may list %q)", what, actorName(w, id), got, k, must, may)
			return false
		}
	}
	return true
}

// ReadBack lets every actor (autocommit and every open transaction) read every key and list keys.
func (w *World) ReadBack(what string) bool {
	if !w.drainReaders(what, false) {
		return false
	}
	start := 0
	if w.Obs != nil {
		start = len(*w.Obs)
		defer func() { w.lastReadBackLen = len(*w.Obs) - start }()
	}
	actors := append([]int{0}, w.M.OpenTxs()...)
	keys := append([]string{}, w.Case.Keys...)
	keys = append(keys, neverKey)
	for ai, id := range actors {
		for ki, k := range keys {
			if !w.checkRead(id, k, (w.step+ai+ki)%3 == 0, what) {
				return false
			}
		}
		if !w.checkKeys(id, what) {
			return false
		}
	}
	return true
}

// ReadBackAuto is the C03 observation: autocommit reads of all keys plus GetKeys.
func (w *World) ReadBackAuto(what string) bool {
	for ki, k := range w.Case.Keys {
		if !w.checkRead(0, k, (w.step+ki)%3 == 0, what) {
			return false
		}
	}
	return w.checkKeys(0, what)
}

func (w *World) noteContent(b []byte, desc string) {
	w.byHash[sha256.Sum256(b)] = desc
}

// Apply executes one op against the implementation and the model and compares the op's own result.
// It returns false when the oracle rejected something (w.R.Fail is set) or on infrastructure trouble.
func (w *World) Apply(i int, op Op) bool {
	if op.Cctx && !w.Case.External {
		saved := w.ctx
		cctx, cancel := context.WithCancel(saved)
		cancel()
		w.ctx = cctx
		defer func() { w.ctx = saved }()
	}
	return w.apply(i, op)
}

func (w *World) apply(i int, op Op) bool {
	w.step = i
	what := fmt.Sprintf("step %d (%s)", i, op.K)
	switch op.K {
	case "begin":
		if len(w.M.OpenTxs()) >= 6 {
			return true
		}
		lvl := op.Lvl
		var tx fs_db.Tx
		var err error
		if lvl < 0 || lvl > 3 {
			tx, err = w.DB.Begin(w.ctx)
			lvl = model.RC
		} else {
			tx, err = w.DB.Begin(w.ctx, fsmodel.TxIsoLevel(lvl))
		}
		if err != nil {
			w.R.Failf("%s: Begin failed: %v", what, err)
			return false
		}
		id := w.M.Begin(lvl)
		w.handles[id] = &handle{id: id, tx: tx, level: lvl}
		w.R.Logf("%s -> %s", what, actorName(w, id))
		w.Stats["begin"]++
		lv := map[int]bool{}
		for _, o := range w.M.OpenTxs() {
			lv[w.M.Tx(o).Level] = true
		}
		if len(lv) >= 2 {
			w.Stats["two-levels-open"]++
		}
	case "set", "del":
		id, ok := w.pickActor(op)
		if !ok {
			return true
		}
		key := w.key(op.Key)
		// (Delete of the empty key: fs_db accepts it - nothing can be stored under the empty key, so it never
		// changes what anybody reads, but it is a write like any other: it belongs to its transaction's write
		// set and takes part in the conflict rule)
		var err error
		v := model.Val{Del: true}
		if op.K == "set" {
			v = model.Val{Len: op.Len, Seed: uint32(i + 1)}
			if op.Same {
				// write exactly the bytes the actor currently reads for this key (a "save" without changes): still a
				// write - a new version, part of the transaction's write set, subject to the conflict rule
				if cur, merr := w.M.Read(id, key); merr == model.OK && len(cur) == 1 && !cur[0].Del {
					v = cur[0]
					w.Stats["rewrite-same-bytes"]++
				}
			}
			b := model.Bytes(v)
			w.noteContent(b, fmt.Sprintf("content written at step %d to %q by %s", i, key, actorName(w, id)))
			err = w.doWrite(w.store(id), key, b, op)
		} else {
			err = w.store(id).Delete(w.ctx, key)
		}
		if id == 0 && op.K == "set" && key != "" {
			if cur, _ := w.M.Read(0, key); len(cur) == 1 {
				if w.M.VersionCount(key) > 0 && cur[0].Del {
					w.Stats["recreate"]++
				} else if !cur[0].Del {
					w.Stats["overwrite"]++
				}
			}
			if op.Len > 2048 {
				w.Stats["big"]++
			}
		}
		if id != 0 && op.K == "set" {
			if t := w.M.Tx(id); t != nil && t.Open && t.HasWrite(key) {
				w.Stats["intx-superseded"]++
			}
		}
		want := w.M.Write(id, key, v)
		w.R.Logf("%s %s key=%q len=%d via=%q -> %s", what, actorName(w, id), key, op.Len, op.Via, Class(err))
		if (op.Late || op.Ghost) && want == model.ErrTxNotFound {
			w.Stats["late-write"]++
			for _, o := range w.M.OpenTxs() {
				if w.M.Tx(o).Level == model.RU {
					w.Stats["late-write-with-RU-observer"]++
					break
				}
			}
			if err == nil && ev.KnownOpen(KnownLateWrite) {
				// known finding: the write path never consults the transaction registry. The write is
				// accepted; from now on ReadUncommitted readers may see it (and nobody else may).
				w.R.KnownHits = append(w.R.KnownHits, KnownLateWrite)
				w.M.ZombieWrite(id, key, v)
				return true
			}
		}
		if Class(err) != want {
			w.R.Failf("%s: %s %s(%q) returned %s (%v), want %s", what, actorName(w, id), op.K, key, Class(err), err, want)
			return false
		}
		w.Stats[op.K]++
	case "get", "getr":
		id, ok := w.pickActor(op)
		if !ok {
			return true
		}
		if !w.checkRead(id, w.key(op.Key), op.K == "getr", what) {
			return false
		}
	case "keys":
		id, ok := w.pickActor(op)
		if !ok {
			return true
		}
		if !w.checkKeys(id, what) {
			return false
		}
	case "commit", "rollback":
		id, ok := w.pickActor(op)
		if !ok || id == 0 {
			return true
		}
		h := w.txOps(id)
		var err error
		var want model.Err
		if op.K == "commit" {
			ck, wk := w.M.WouldConflict(id)
			err = h.Commit(w.ctx)
			if err != nil && w.bulkBytes[id] > 8<<20 && Class(err) != model.ErrTxSerialize && strings.Contains(err.Error(), "too big") {
				// more version records than one Badger transaction holds: the commit is refused as a
				// whole (the transaction is over, nothing of it may ever be visible)
				w.M.Rollback(id)
				w.commitTooBig = true
				w.Stats["commit-too-big"]++
				w.R.Logf("%s %s -> refused: %v", what, actorName(w, id), err)
				return true
			}
			want = w.M.Commit(id)
			if want == model.ErrTxSerialize {
				w.Stats["commit-conflict"]++
				if ck == 1 && wk >= 2 {
					w.Stats["conflict-on-one-of-many"]++
				}
			} else if want == model.OK {
				w.Stats["commit-ok"]++
				if wk >= 2 {
					w.Stats["commit-ok-multikey"]++
				}
			}
		} else {
			err = h.Rollback(w.ctx)
			want = w.M.Rollback(id)
			w.Stats["rollback"]++
		}
		w.R.Logf("%s %s -> %s", what, actorName(w, id), Class(err))
		if Class(err) != want {
			w.R.Failf("%s: %s %s returned %s (%v), want %s", what, actorName(w, id), op.K, Class(err), err, want)
			return false
		}
	case "txburst":
		// N writes of small contents to fresh keys with names of Len bytes, through one transaction
		// (Via "same": N overwrites of one pool key instead; also allowed outside transactions)
		id, ok := w.pickActor(op)
		if !ok {
			return true
		}
		for j := 0; j < op.N; j++ {
			key := w.bulkKey(i, j, op.Len)
			if op.Via == "same" {
				key = w.key(op.Key)
			}
			v := model.Val{Len: 1 + j%5, Seed: uint32(i*100000 + j + 1)}
			b := model.Bytes(v)
			w.noteContent(b, fmt.Sprintf("content written at step %d (#%d of a burst) by %s", i, j, actorName(w, id)))
			if err := w.store(id).Set(w.ctx, key, b); err != nil {
				w.R.Failf("%s: %s Set of burst key #%d failed: %v", what, actorName(w, id), j, err)
				return false
			}
			w.M.Write(id, key, v)
			if w.bulkBytes == nil {
				w.bulkBytes = map[int]int{}
			}
			w.bulkBytes[id] += len(key)
		}
		w.Stats["txburst"]++
	case "files":
		// N files are open at the same time (one caller), written alternately and closed in reverse or
		// forward order: every Close must return (a Close that has not returned after 30 s never will)
		id, ok := w.pickActor(op)
		if !ok {
			return true
		}
		n := op.N
		if n < 2 {
			n = 2
		}
		type openFile struct {
			f   fs_db.File
			key string
			v   model.Val
			b   []byte
		}
		var fs []openFile
		for j := 0; j < n; j++ {
			key := fmt.Sprintf("file-%d-%d", i, j)
			v := model.Val{Len: 3 + (op.Len+j*1000)%5000, Seed: uint32(i*100000 + 50000 + j)}
			f, err := w.store(id).Create(w.ctx, key)
			if err != nil {
				w.R.Failf("%s: %s Create(%q) failed: %v", what, actorName(w, id), key, err)
				return false
			}
			b := model.Bytes(v)
			w.noteContent(b, fmt.Sprintf("content written at step %d to %q by %s", i, key, actorName(w, id)))
			fs = append(fs, openFile{f, key, v, b})
		}
		for off := 0; ; off += 700 { // round robin, 700 bytes at a time
			wrote := false
			for _, of := range fs {
				if off < len(of.b) {
					end := min(off+700, len(of.b))
					if _, err := of.f.Write(append([]byte(nil), of.b[off:end]...)); err != nil {
						w.R.Failf("%s: Write to %q failed: %v", what, of.key, err)
						return false
					}
					wrote = true
				}
			}
			if !wrote {
				break
			}
		}
		closed := map[string]bool{}
		// everybody reads and lists while the files are still open (nothing of them is stored yet: a file
		// takes effect when its Close returns) - and again after the step, when all of them are
		readBackOpen := func() bool {
			if op.Len%3 == 0 {
				return true
			}
			w.Stats["read-back-while-files-open"]++
			return w.ReadBack(what + ": read-back while the files are open")
		}
		defer func() {
			// after a failure: close whatever is still open, first-opened first, so that the database
			// itself can be closed (its pool waits for running jobs)
			var wg sync.WaitGroup
			for _, of := range fs {
				if !closed[of.key] {
					wg.Add(1)
					go func(f fs_db.File) { defer wg.Done(); _ = f.Close() }(of.f)
					time.Sleep(20 * time.Millisecond)
				}
			}
			fin := make(chan struct{})
			go func() { wg.Wait(); close(fin) }()
			select {
			case <-fin:
			case <-time.After(10 * time.Second):
			}
		}()
		if !readBackOpen() {
			return false
		}
		if w.Cont != nil && op.Len%4 == 1 {
			// the collector runs while the files are open: whatever it removes, it is not what is being written
			if err := w.GC(); err != nil {
				w.R.Failf("%s: collector run while files are open failed: %v", what, err)
				return false
			}
			w.Stats["collector-while-files-open"]++
		}
		for j := range fs {
			of := fs[j]
			if op.Len%2 == 0 {
				of = fs[len(fs)-1-j]
			}
			if j == 1 && op.Len%3 == 1 && !w.ReadBack(what+": read-back after the first of the files was closed") {
				return false
			}
			closed[of.key] = true
			done := make(chan error, 1)
			go func() { done <- of.f.Close() }()
			select {
			case err := <-done:
				if err != nil {
					w.R.Failf("%s: Close of %q failed: %v", what, of.key, err)
					return false
				}
			case <-time.After(30 * time.Second):
				w.R.Failf("%s: Close of %q (file %d of %d open at the same time, closed %s) has not returned after 30 s", what, of.key, j+1, len(fs), map[bool]string{true: "last-opened first", false: "first-opened first"}[op.Len%2 == 0])
				return false
			}
			w.M.Write(id, of.key, of.v)
		}
		for _, of := range fs {
			if !w.checkRead(id, of.key, false, what+": reading back "+of.key) {
				return false
			}
		}
		w.Stats["files-open-together"]++
	case "gc":
		if w.Cont == nil {
			return true
		}
		for _, o := range w.M.OpenTxs() {
			if t := w.M.Tx(o); t.Level >= model.RR && w.M.NewerThanBegin(o) >= 2 {
				w.Stats["gc-while-snapshot-behind-2-versions"]++
				break
			}
		}
		if err := w.GC(); err != nil {
			w.R.Failf("%s: collector returned an error: %v", what, err)
			return false
		}
		w.Stats["gc"]++
	case "nop":
	case "foreignin":
		// somebody drops a file of their own into one of the content directories (C17 counts ENTRIES of a
		// directory, whoever made them); it has to stay, and the directory's limit still holds
		t := WalkRoots(w.Cfg.Storage.RootDirs, false)
		var dirs []string
		for d, n := range t.Dirs {
			if n+1 < w.effLimit() && len(w.foreignIn) < 3 {
				dirs = append(dirs, d)
			}
		}
		sort.Strings(dirs)
		if len(dirs) > 0 {
			k := op.Key
			if k < 0 {
				k = -k
			}
			p := filepath.Join(dirs[k%len(dirs)], fmt.Sprintf("notes-%d.txt", len(w.foreignIn)))
			if err := os.WriteFile(p, []byte(foreignText), 0o644); err == nil {
				w.foreignIn = append(w.foreignIn, p)
				w.Stats["foreign-entry-in-content-dir"]++
			}
		}
	case "otherdb":
		// another, unrelated database is opened, written and closed by the same process in the middle of
		// the history ("whatever other database instances the same process has opened before or meanwhile")
		share := ""
		if w.Case.ShareRoot {
			share = w.Cfg.Storage.RootDirs[0]
		}
		for _, c := range openOthers(1, filepath.Dir(w.Dir), share) {
			c()
		}
		w.Stats["otherdb"]++
	case "reopen":
		if err := w.Reopen(); err != nil {
			w.R.Failf("%s: reopen failed: %v", what, err)
			return false
		}
		w.Stats["reopen"]++
	default:
		panic("harness: unknown op kind " + op.K)
	}
	return true
}

// ApplyDry applies only the model effects of op (used to rebuild the model in a fresh process).
func (w *World) ApplyDry(i int, op Op) {
	w.step = i
	switch op.K {
	case "begin":
		if len(w.M.OpenTxs()) >= 6 {
			return
		}
		lvl := op.Lvl
		if lvl < 0 || lvl > 3 {
			lvl = model.RC
		}
		id := w.M.Begin(lvl)
		w.handles[id] = &handle{id: id, level: lvl}
	case "set", "del":
		id, ok := w.pickActor(op)
		if !ok || op.Late || op.Ghost {
			return
		}
		key := w.key(op.Key)
		v := model.Val{Del: true}
		if op.K == "set" {
			v = model.Val{Len: op.Len, Seed: uint32(i + 1)}
			if op.Same {
				if cur, merr := w.M.Read(id, key); merr == model.OK && len(cur) == 1 && !cur[0].Del {
					v = cur[0]
				}
			}
			w.noteContent(model.Bytes(v), fmt.Sprintf("content written at step %d to %q by %s", i, key, actorName(w, id)))
		}
		w.M.Write(id, key, v)
	case "files":
		id, ok := w.pickActor(op)
		if !ok {
			return
		}
		n := max(op.N, 2)
		for j := 0; j < n; j++ {
			key := fmt.Sprintf("file-%d-%d", i, j)
			v := model.Val{Len: 3 + (op.Len+j*1000)%5000, Seed: uint32(i*100000 + 50000 + j)}
			w.noteContent(model.Bytes(v), fmt.Sprintf("content written at step %d to %q by %s", i, key, actorName(w, id)))
			w.M.Write(id, key, v)
		}
	case "txburst":
		id, ok := w.pickActor(op)
		if !ok {
			return
		}
		for j := 0; j < op.N; j++ {
			v := model.Val{Len: 1 + j%5, Seed: uint32(i*100000 + j + 1)}
			w.noteContent(model.Bytes(v), fmt.Sprintf("content written at step %d (#%d of a burst) by %s", i, j, actorName(w, id)))
			key := w.bulkKey(i, j, op.Len)
			if op.Via == "same" {
				key = w.key(op.Key)
			}
			w.M.Write(id, key, v)
		}
	case "commit", "rollback":
		id, ok := w.pickActor(op)
		if !ok || id <= 0 {
			return
		}
		if op.K == "commit" {
			w.M.Commit(id)
		} else {
			w.M.Rollback(id)
		}
	case "reopen", "newproc":
		w.M.Reopen()
	}
}
