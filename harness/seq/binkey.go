package seq

import (
	"bytes"
	"encoding/hex"
	"fmt"
	"io"
	"strings"
	"unicode/utf8"

	"github.com/glebziz/fs_db"
	"github.com/glebziz/fs_db/internal/verifh/ev"
	"github.com/glebziz/fs_db/internal/verifh/model"
)

// BinKeyCase is the differential form of C11 for keys that are not valid UTF-8: the same short
// program runs on a fresh inline database and on a fresh server through the gRPC client, and every
// result (error class, bytes, key list) is compared call by call. No model is involved: the inline
// client is the reference, exactly as the property is worded.
type BinKeyCase struct {
	KeysHex []string `json:"keys_hex"` // the key pool, hex (any bytes)
	Ops     []BKOp   `json:"ops"`
}

type BKOp struct {
	K   string `json:"k"` // set setr create get getr del keys begin commit rollback
	Key int    `json:"key,omitempty"`
	Len int    `json:"len,omitempty"`
	Tx  bool   `json:"tx,omitempty"` // through the open transaction, if any
}

type bkResult struct {
	cls  model.Err
	msg  string
	data string
}

func (r bkResult) String() string {
	if r.cls != model.OK {
		return fmt.Sprintf("%s (%s)", r.cls, r.msg)
	}
	return "ok " + r.data
}

func runBinKey(c BinKeyCase, external bool, keys []string) ([]bkResult, error) {
	w, err := NewWorld(Case{Prof: "c11", Keys: []string{"unused"}, Roots: 1, MaxDir: 100, External: external}, &ev.Result{})
	if err != nil {
		return nil, err
	}
	defer w.Close()
	var tx fs_db.Tx
	var out []bkResult
	for i, op := range c.Ops {
		var s fs_db.Store = w.DB
		if op.Tx && tx != nil {
			s = tx
		}
		key := keys[abs(op.Key)%len(keys)]
		b := model.Bytes(model.Val{Len: op.Len, Seed: uint32(i + 1)})
		var res bkResult
		set := func(err error, data string) {
			res = bkResult{cls: Class(err), data: data}
			if err != nil {
				res.msg = err.Error()
			}
		}
		switch op.K {
		case "set":
			set(s.Set(w.ctx, key, b), "")
		case "setr":
			set(s.SetReader(w.ctx, key, bytes.NewReader(b)), "")
		case "create":
			f, err := s.Create(w.ctx, key)
			if err == nil {
				_, werr := f.Write(append([]byte(nil), b...))
				err = f.Close()
				if werr != nil {
					err = werr
				}
			}
			set(err, "")
		case "get":
			got, err := s.Get(w.ctx, key)
			set(err, hex.EncodeToString(got))
		case "getr":
			rc, err := s.GetReader(w.ctx, key)
			var got []byte
			if err == nil {
				got, err = io.ReadAll(rc)
				rc.Close()
			}
			set(err, hex.EncodeToString(got))
		case "del":
			set(s.Delete(w.ctx, key), "")
		case "keys":
			ks, err := s.GetKeys(w.ctx)
			set(err, fmt.Sprintf("%q", ks))
		case "begin":
			if tx == nil {
				t, err := w.DB.Begin(w.ctx)
				if err == nil {
					tx = t
				}
				set(err, "")
			}
		case "commit", "rollback":
			if tx != nil {
				if op.K == "commit" {
					set(tx.Commit(w.ctx), "")
				} else {
					set(tx.Rollback(w.ctx), "")
				}
				tx = nil
			}
		}
		out = append(out, res)
	}
	return out, nil
}

// ExecC11BinKey compares the two bindings call by call.
func ExecC11BinKey(c BinKeyCase) *ev.Result {
	r := &ev.Result{}
	var keys []string
	for _, h := range c.KeysHex {
		if h == "-" {
			keys = append(keys, "") // the empty key
		} else if b, err := hex.DecodeString(h); err == nil && len(b) > 0 {
			keys = append(keys, string(b))
		}
	}
	if len(keys) == 0 || len(c.Ops) == 0 {
		return r
	}
	in, err := runBinKey(c, false, keys)
	if err != nil {
		panic("INFRA: " + err.Error())
	}
	ex, err := runBinKey(c, true, keys)
	if err != nil {
		panic("INFRA: " + err.Error())
	}
	bin := false
	for i, op := range c.Ops {
		key := keys[abs(op.Key)%len(keys)]
		keyed := op.K != "keys" && op.K != "begin" && op.K != "commit" && op.K != "rollback"
		if keyed && (!utf8.ValidString(key) || key == "") {
			bin = true
		}
		if in[i].cls == ex[i].cls && in[i].data == ex[i].data {
			continue
		}
		// Known finding C11-non-utf8-key: the protocol carries keys as protobuf strings, so the
		// gRPC client cannot even send a key that is not valid UTF-8. Excused is exactly that: the
		// call names such a key and the gRPC side failed with the marshaller's complaint. From
		// there on the two databases hold different data, so the comparison stops.
		if keyed && !utf8.ValidString(key) && (ex[i].cls == model.ErrUnknown || ex[i].cls == model.ErrOther) && strings.Contains(ex[i].msg, "invalid UTF-8") && ev.KnownOpen("C11-non-utf8-key") {
			r.KnownHits = append(r.KnownHits, "C11-non-utf8-key")
			r.Logf("step %d %s(%q): inline %s, gRPC %s", i, op.K, key, in[i], ex[i])
			break
		}
		r.Failf("step %d %s(%q): the inline client returned %s, the gRPC client %s", i, op.K, key, in[i], ex[i])
		return r
	}
	r.NonTrivial = bin
	if bin {
		r.Class("non-utf8-key-used")
	}
	return r
}
