package seq

import (
	"crypto/sha256"
	"fmt"
	"strings"
	"sync"
	"syscall"
	"time"

	"github.com/glebziz/fs_db"
	"github.com/glebziz/fs_db/internal/verifh/ev"
	"github.com/glebziz/fs_db/internal/verifh/model"
	"github.com/glebziz/fs_db/internal/verifhook"
)

// FileDiffCase is the differential form of C11 for the life of one file handle obtained from
// Create: the same calls on a fresh inline database and through the gRPC client against a fresh
// server. What is compared is what does not depend on timing on either side: the class of every
// Close (the storing side has finished when the first Close returns), whether the writes as a
// whole were reported as failed consistently with the Close, and what the key reads afterwards.
// The class of an individual Write is NOT compared call by call: both bindings report a failure
// of the storing side to a later Write only if it has already happened, which is a matter of
// buffering and timing (inline: a 1 MiB backlog; gRPC: the flow-control window).
type FileDiffCase struct {
	EmptyKey bool  `json:"empty_key,omitempty"` // Create(""): the store rejects the write
	NoSpace  int   `json:"no_space,omitempty"`  // > 0: every root is out of space once this many bytes (+1) of a content file are on disk
	Prev     int   `json:"prev,omitempty"`      // > 0: the key holds a value of this length before
	InTx     bool  `json:"in_tx,omitempty"`     // through a transaction (committed afterwards)
	Writes   []int `json:"writes"`              // sizes of the Write calls
	Closes   int   `json:"closes"`              // number of Close calls (>= 1): a deferred Close after an explicit one is ordinary Go
}

type fileDiffRun struct {
	create   model.Err
	writeErr model.Err // class of the first failing Write, OK if none failed
	writeMsg string
	closes   []model.Err
	closeMsg []string
	commit   model.Err
	get      model.Err
	sum      [32]byte
	n        int
	hung     string
}

func runFileDiff(c FileDiffCase, external bool) (fileDiffRun, error) {
	out := fileDiffRun{writeErr: model.OK, commit: model.OK}
	w, err := NewWorld(Case{Prof: "c11", Keys: []string{"k"}, Roots: 2, MaxDir: 100, External: external}, &ev.Result{})
	if err != nil {
		return out, err
	}
	defer w.Close()
	defer verifhook.SetWrite(nil)
	defer verifhook.SetPoint(nil)
	key := "k"
	if c.Prev > 0 {
		if err := w.DB.Set(w.ctx, key, model.Bytes(model.Val{Len: c.Prev, Seed: 5})); err != nil {
			return out, fmt.Errorf("setup write failed: %w", err)
		}
	}
	if c.EmptyKey {
		key = ""
	}
	verifhook.SetPoint(func(kind, arg string) error { hookActivity.Add(1); return nil })
	if c.NoSpace > 0 {
		var mu sync.Mutex
		written := map[string]int{}
		verifhook.SetWrite(func(path string, size int) (int, error) {
			hookActivity.Add(1)
			mu.Lock()
			defer mu.Unlock()
			if !strings.Contains(path, "/root") {
				return size, nil
			}
			if written[path]+size > c.NoSpace {
				return 0, syscall.ENOSPC
			}
			written[path] += size
			return size, nil
		})
	}
	var s fs_db.Store = w.DB
	var tx fs_db.Tx
	if c.InTx {
		tx, err = w.DB.Begin(w.ctx)
		if err != nil {
			return out, fmt.Errorf("Begin failed: %w", err)
		}
		s = tx
	}
	f, err := s.Create(w.ctx, key)
	out.create = Class(err)
	if err == nil {
		var scratch []byte
		for i, n := range c.Writes {
			b := model.Bytes(model.Val{Len: n, Seed: uint32(100 + i)})
			if cap(scratch) < len(b) {
				scratch = make([]byte, len(b))
			}
			q := scratch[:len(b)]
			copy(q, b)
			_, werr := f.Write(q)
			for j := range q {
				q[j] ^= 0x5A
			}
			if werr != nil {
				out.writeErr, out.writeMsg = Class(werr), werr.Error()
				break // a caller stops writing at the first error and goes on to Close
			}
		}
		for i := 0; i < c.Closes || i == 0; i++ {
			// Close always returns (a Close that has not returned after 30 s of an upload of at most a few
			// megabytes never will)
			done := make(chan error, 1)
			go func() { done <- f.Close() }()
			var cerr error
			select {
			case cerr = <-done:
			case <-time.After(30 * time.Second):
				out.hung = fmt.Sprintf("Close number %d has not returned after 30 s", i+1)
				return out, nil
			}
			out.closes = append(out.closes, Class(cerr))
			if cerr != nil {
				out.closeMsg = append(out.closeMsg, cerr.Error())
			} else {
				out.closeMsg = append(out.closeMsg, "")
			}
		}
	}
	if tx != nil {
		out.commit = Class(tx.Commit(w.ctx))
	}
	verifhook.SetWrite(nil)
	if external {
		waitHooksQuiet()
	}
	got, gerr := w.DB.Get(w.ctx, "k")
	out.get, out.sum, out.n = Class(gerr), sha256.Sum256(got), len(got)
	return out, nil
}

// ExecC11FileDiff runs the case on both bindings and compares.
func ExecC11FileDiff(c FileDiffCase) *ev.Result {
	r := &ev.Result{}
	in, err := runFileDiff(c, false)
	if err != nil {
		panic("INFRA: " + err.Error())
	}
	ex, err := runFileDiff(c, true)
	if err != nil {
		panic("INFRA: " + err.Error())
	}
	for _, run := range []struct {
		name string
		r    fileDiffRun
	}{{"inline", in}, {"gRPC", ex}} {
		if run.r.hung != "" {
			r.Failf("Create(emptyKey=%v, inTx=%v, prev=%d, roots full after %d bytes), writes %v, %d x Close on the %s client: %s", c.EmptyKey, c.InTx, c.Prev, c.NoSpace, c.Writes, c.Closes, run.name, run.r.hung)
			return r
		}
	}
	desc := fmt.Sprintf("Create(emptyKey=%v, inTx=%v, prev=%d, roots full after %d bytes), writes %v, %d x Close", c.EmptyKey, c.InTx, c.Prev, c.NoSpace, c.Writes, c.Closes)
	if in.create != ex.create {
		r.Failf("%s: Create returned %s inline and %s over gRPC", desc, in.create, ex.create)
		return r
	}
	if in.create != model.OK {
		return r
	}
	for i := range in.closes {
		if i >= len(ex.closes) || in.closes[i] != ex.closes[i] {
			r.Failf("%s: Close number %d returned %s (%s) inline and %s (%s) over gRPC [first failing Write: inline %s, gRPC %s (%s)]",
				desc, i+1, in.closes[i], in.closeMsg[i], ex.closes[i], ex.closeMsg[i], in.writeErr, ex.writeErr, ex.writeMsg)
			return r
		}
	}
	// a Write may report the failure of the storing side early; if it does, it is that failure
	for _, run := range []struct {
		name string
		r    fileDiffRun
	}{{"inline", in}, {"gRPC", ex}} {
		if run.r.writeErr != model.OK && run.r.writeErr != in.closes[0] {
			r.Failf("%s: the %s client's Write failed with %s (%s) but the inline client's Close reports %s", desc, run.name, run.r.writeErr, run.r.writeMsg, in.closes[0])
			return r
		}
	}
	if in.commit != ex.commit {
		r.Failf("%s: Commit returned %s inline and %s over gRPC", desc, in.commit, ex.commit)
		return r
	}
	if in.get != ex.get || in.sum != ex.sum {
		r.Failf("%s: afterwards the key reads %s (%d bytes) inline and %s (%d bytes) over gRPC", desc, in.get, in.n, ex.get, ex.n)
		return r
	}
	failed := in.closes[0] != model.OK
	r.NonTrivial = failed || c.Closes > 1
	if failed {
		r.Class("storing-failed")
	}
	if ex.writeErr != model.OK {
		r.Class("grpc-write-reported-the-failure")
	}
	if in.writeErr != model.OK {
		r.Class("inline-write-reported-the-failure")
	}
	if c.Closes > 1 {
		r.Class("closed-more-than-once")
	}
	return r
}
