package seq

import (
	"testing"

	"pgregory.net/rapid"

	"github.com/glebziz/fs_db/internal/verifh/ev"
)

func genC14(t *rapid.T) Case {
	c := Case{Prof: "c14", Roots: rapid.IntRange(1, 2).Draw(t, "roots"), MaxDir: 100, Variant: rapid.SampledFrom([]int{0, 0, 1, 2}).Draw(t, "variant"),
		RootStyle: rapid.SampledFrom([]int{0, 0, 0, 1, 2, 3}).Draw(t, "rootStyle")}
	c.Keys = GenKeys(t, 2, 4, true)
	c.KeysHex = GenBinKeys(t)
	c.Workers = rapid.SampledFrom([]int{0, 0, 1, 1, 3, 8}).Draw(t, "workers")
	c.Ops = GenTxOps(t, TxGenOpts{MinOps: 5, MaxOps: 80, Weights: map[string]int{
		"begin": 6, "set": 14, "del": 4, "commit": 6, "rollback": 3, "gc": 1}})
	// now and then a batch of more than a thousand versions becomes garbage at once: a transaction
	// writes that many keys (or one key that often) and ends, or that many overwrites are pending at a reopen
	if rapid.IntRange(0, 15).Draw(t, "bigBatch") == 0 {
		n := rapid.SampledFrom([]int{1001, 1500, 2500, 4200}).Draw(t, "batch")
		burst := Op{K: "txburst", N: n, Len: rapid.SampledFrom([]int{0, 60}).Draw(t, "nameLen")}
		if rapid.Bool().Draw(t, "sameKey") {
			burst.Via = "same"
		}
		var frag []Op
		switch rapid.IntRange(0, 3).Draw(t, "batchKind") {
		case 3: // autocommit overwrites of one key, all of them garbage for ONE collector pass (no reopen)
			burst.Via = "same"
			frag = []Op{burst}
		case 0:
			burst.Last = true
			frag = []Op{{K: "begin", Lvl: rapid.IntRange(0, 3).Draw(t, "batchLvl")}, burst, {K: "rollback", Last: true}}
		case 1:
			burst.Last = true
			burst.Via = "same"
			frag = []Op{{K: "begin", Lvl: rapid.IntRange(0, 1).Draw(t, "batchLvl")}, burst, {K: "commit", Last: true}}
		default:
			burst.Via = "same"
			frag = []Op{burst, {K: "reopen"}}
		}
		at := rapid.IntRange(0, len(c.Ops)).Draw(t, "batchAt")
		c.Ops = append(c.Ops[:at:at], append(frag, c.Ops[at:]...)...)
	}
	return c
}

func TestC14(t *testing.T) { ev.Check(t, "C14", "seq", genC14, ExecC14) }

// genC17Fill: one root, several directories filled to the limit, then reopen/write rounds - the
// state "more than one full directory is registered at once" only exists right after an open.
func genC17Fill(t *rapid.T) Case {
	c := Case{Prof: "c17", Roots: 1, MaxDir: rapid.SampledFrom([]uint64{0, 100, 101}).Draw(t, "limit"), Keys: []string{"a", "b", "c"},
		RootStyle: rapid.SampledFrom([]int{0, 0, 1}).Draw(t, "rootStyle"), Foreign: rapid.IntRange(0, 3).Draw(t, "foreign") == 0}
	for n := rapid.IntRange(2, 4).Draw(t, "bursts"); n > 0; n-- {
		c.Ops = append(c.Ops, Op{K: "burst", N: rapid.IntRange(95, 130).Draw(t, "n")})
	}
	for n := rapid.IntRange(1, 4).Draw(t, "rounds"); n > 0; n-- {
		c.Ops = append(c.Ops, Op{K: "reopen"})
		for m := rapid.IntRange(1, 4).Draw(t, "writes"); m > 0; m-- {
			c.Ops = append(c.Ops, Op{K: "set", Key: rapid.IntRange(0, 2).Draw(t, "key"), Len: 1})
		}
		if rapid.IntRange(0, 3).Draw(t, "del") == 0 {
			c.Ops = append(c.Ops, Op{K: "delburst", Key: rapid.IntRange(0, 3).Draw(t, "which")})
		}
	}
	return c
}

func genC17(t *rapid.T) Case {
	if rapid.IntRange(0, 2).Draw(t, "fill") == 0 {
		return genC17Fill(t)
	}
	c := Case{Prof: "c17", Roots: rapid.IntRange(1, 3).Draw(t, "roots"), MaxDir: rapid.SampledFrom([]uint64{0, 1, 99, 100, 101, 150}).Draw(t, "limit"),
		RootStyle: rapid.SampledFrom([]int{0, 0, 1, 2, 3}).Draw(t, "rootStyle")}
	c.Keys = GenKeys(t, 1, 3, false)
	c.Foreign = rapid.IntRange(0, 2).Draw(t, "foreign") == 0
	n := rapid.IntRange(2, 14).Draw(t, "nops")
	for i := 0; i < n; i++ {
		k := rapid.SampledFrom([]string{"burst", "burst", "burst", "delburst", "delburst", "gc", "reopen", "set", "del", "droproot", "foreignin"}).Draw(t, "kind")
		op := Op{K: k}
		switch k {
		case "burst":
			op.N = rapid.IntRange(30, 130).Draw(t, "n")
		case "delburst":
			op.Key = rapid.IntRange(0, 5).Draw(t, "which")
			if rapid.Bool().Draw(t, "partial") {
				op.N = rapid.SampledFrom([]int{1, 5, 10, 30, 60}).Draw(t, "firstN")
			}
		case "set", "del":
			op.Key = rapid.IntRange(0, 3).Draw(t, "key")
			op.Len = rapid.IntRange(0, 10).Draw(t, "len")
		case "foreignin":
			op.Key = rapid.IntRange(0, 7).Draw(t, "whichDir")
		}
		c.Ops = append(c.Ops, op)
	}
	return c
}

func TestC17(t *testing.T) { ev.Check(t, "C17", "seq", genC17, ExecC17) }
