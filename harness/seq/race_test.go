package seq

import (
	"testing"

	"pgregory.net/rapid"

	"github.com/glebziz/fs_db/internal/verifh/ev"
)

func genC15(t *rapid.T) RaceCase {
	rc := RaceCase{Roots: rapid.IntRange(1, 2).Draw(t, "roots"), External: rapid.IntRange(0, 3).Draw(t, "ext") == 0, Warm: rapid.Bool().Draw(t, "warm")}
	rc.Keys = GenKeys(t, 1, 3, false)
	if !rc.External && rapid.IntRange(0, 3).Draw(t, "reopened") == 0 {
		rc.Prefill = rapid.SampledFrom([]int{50, 600, 2000}).Draw(t, "prefill")
	}
	if rapid.IntRange(0, 3).Draw(t, "storm") == 0 {
		// conflict storm: snapshot transactions that keep losing (or winning) write-write conflicts on one
		// key against autocommit writers, while ReadUncommitted readers look at that key: the abort and
		// clean-up paths of Commit run concurrently with reads
		lvl := rapid.SampledFrom([]int{2, 3}).Draw(t, "stormLvl")
		rounds := rapid.IntRange(4, 12).Draw(t, "stormRounds")
		var committer, writer, reader []Op
		for i := 0; i < rounds; i++ {
			committer = append(committer, Op{K: "begin", Lvl: lvl}, Op{K: "get", Key: 0, H: 1}, Op{K: "set", Key: 0, H: 1, Len: 10},
				Op{K: "set", Key: 1, H: 1, Len: 3}, Op{K: "commit"})
			writer = append(writer, Op{K: "set", Key: 0, Len: 1}, Op{K: "set", Key: 0, Len: 2})
			reader = append(reader, Op{K: "begin", Lvl: 0}, Op{K: "get", Key: 0, H: 1}, Op{K: "keys", H: 1}, Op{K: "get", Key: 1, H: 1}, Op{K: "rollback"})
		}
		rc.Workers = [][]Op{committer, writer, reader, reader}
		if rapid.Bool().Draw(t, "stormSecondCommitter") {
			rc.Workers = append(rc.Workers, committer)
		}
		if rapid.Bool().Draw(t, "stormGC") {
			rc.Workers = append(rc.Workers, []Op{{K: "gc"}, {K: "gc"}, {K: "gc"}})
		}
		return rc
	}
	ng := rapid.IntRange(3, 8).Draw(t, "goroutines")
	for g := 0; g < ng; g++ {
		n := rapid.IntRange(2, 14).Draw(t, "nops")
		var script []Op
		for i := 0; i < n; i++ {
			k := rapid.SampledFrom([]string{"begin", "begin", "set", "set", "set", "del", "get", "get", "getr", "keys", "commit", "commit", "rollback", "gc"}).Draw(t, "kind")
			op := Op{K: k, Key: rapid.IntRange(0, 3).Draw(t, "key"), H: rapid.IntRange(0, 2).Draw(t, "inTx"), Lvl: rapid.IntRange(0, 3).Draw(t, "lvl")}
			if k == "set" {
				op.Len = rapid.SampledFrom([]int{0, 1, 10, 100, 3000}).Draw(t, "len")
				if rapid.IntRange(0, 4).Draw(t, "viaSel") == 0 {
					op.Via = rapid.SampledFrom([]string{"reader", "create"}).Draw(t, "via")
				}
			}
			switch rapid.IntRange(0, 9).Draw(t, "failing") {
			case 0:
				op.Key = -1 // empty key
				if k == "set" && rapid.Bool().Draw(t, "failingCreate") {
					op.Via, op.Len = "create", max(op.Len, 1)
				}
			case 1:
				op.Late = true
			}
			script = append(script, op)
		}
		if g == 0 && rapid.IntRange(0, 7).Draw(t, "bigTx") == 0 {
			script = append(script, Op{K: "bigtx", N: rapid.SampledFrom([]int{1001, 2500, 4000}).Draw(t, "bigN"), Len: rapid.IntRange(0, 1).Draw(t, "bigEnd"), Key: rapid.IntRange(0, 3).Draw(t, "bigKey")})
		}
		rc.Workers = append(rc.Workers, script)
	}
	return rc
}

func TestC15(t *testing.T) { ev.Check(t, "C15", "race", genC15, ExecC15) }
