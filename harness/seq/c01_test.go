package seq

import (
	"testing"

	"pgregory.net/rapid"

	"github.com/glebziz/fs_db/internal/verifh/ev"
)

func genC01(t *rapid.T) Case {
	c := Case{Prof: "c01", Roots: rapid.IntRange(1, 2).Draw(t, "roots"), MaxDir: 100}
	c.Keys = GenKeys(t, 1, 4, true)
	c.KeysHex = GenBinKeys(t)
	c.OddPath = rapid.IntRange(0, 3).Draw(t, "oddPath") == 0
	n := rapid.IntRange(1, 40).Draw(t, "nops")
	for i := 0; i < n; i++ {
		k := rapid.SampledFrom([]string{"set", "set", "set", "del", "get", "getr", "keys"}).Draw(t, "kind")
		op := Op{K: k}
		// key selector: mostly pool keys; sometimes the empty key (set/get) or a never-written key (get)
		switch rapid.IntRange(0, 11).Draw(t, "keySel") {
		case 0:
			op.Key = -1
		case 1:
			op.Key = -2
		default:
			op.Key = rapid.IntRange(0, 7).Draw(t, "key")
		}
		if k == "set" {
			if op.Key == -2 {
				op.Key = 0
			}
			op.Len = GenLen(t, true)
			op.Via, op.Split = GenVia(t, op.Len)
			op.CancelClose = GenCancelClose(t, op.Via)
			op.Src = GenSrc(t, op.Via)
		}
		// now and then the caller's context is already cancelled: the inline binding ignores it
		if rapid.IntRange(0, 11).Draw(t, "cctx") == 0 {
			op.Cctx = true
		}
		if k == "del" && op.Key < 0 {
			op.Key = 0
		}
		c.Ops = append(c.Ops, op)
	}
	// many keys at once: key listings of 17 ... 1300 entries
	if rapid.IntRange(0, 9).Draw(t, "manyKeys") == 0 {
		at := rapid.IntRange(0, len(c.Ops)).Draw(t, "manyAt")
		bop := Op{K: "txburst", N: rapid.SampledFrom([]int{17, 33, 100, 1000, 1001, 1300}).Draw(t, "manyN")}
		c.Ops = append(c.Ops[:at:at], append([]Op{bop, {K: "keys"}}, c.Ops[at:]...)...)
	}
	// several files open at the same time, more than the database has workers
	if rapid.IntRange(0, 5).Draw(t, "filesTogether") == 0 {
		at := rapid.IntRange(0, len(c.Ops)).Draw(t, "filesAt")
		fop := Op{K: "files", N: rapid.IntRange(2, 5).Draw(t, "nfiles"), Len: rapid.IntRange(0, 4000).Draw(t, "flen")}
		c.Ops = append(c.Ops[:at:at], append([]Op{fop}, c.Ops[at:]...)...)
	}
	return c
}

func TestC01(t *testing.T) { ev.Check(t, "C01", "seq", genC01, Exec) }

// genC12Files: histories made of groups of files that are open at the same time (2-6, more than the
// database has workers), written alternately and closed in either order, inside and outside
// transactions: every Close returns and each key holds the concatenation of its writes.
func genC12Files(t *rapid.T) Case {
	c := Case{Prof: "c01", Roots: rapid.IntRange(1, 2).Draw(t, "roots"), MaxDir: 100, Keys: []string{"a", "b"}}
	c.Workers = rapid.SampledFrom([]int{0, 0, 1, 2, 3}).Draw(t, "workers")
	for n := rapid.IntRange(1, 4).Draw(t, "groups"); n > 0; n-- {
		if rapid.IntRange(0, 2).Draw(t, "inTx") == 0 {
			c.Ops = append(c.Ops, Op{K: "begin", Lvl: rapid.IntRange(0, 3).Draw(t, "lvl")},
				Op{K: "files", Last: true, N: rapid.IntRange(2, 6).Draw(t, "nfiles"), Len: rapid.IntRange(0, 4000).Draw(t, "flen")},
				Op{K: rapid.SampledFrom([]string{"commit", "rollback"}).Draw(t, "end"), Last: true})
		} else {
			c.Ops = append(c.Ops, Op{K: "files", N: rapid.IntRange(2, 6).Draw(t, "nfiles"), Len: rapid.IntRange(0, 4000).Draw(t, "flen")})
		}
		if rapid.Bool().Draw(t, "setBetween") {
			c.Ops = append(c.Ops, Op{K: "set", Key: rapid.IntRange(0, 1).Draw(t, "key"), Len: rapid.IntRange(0, 3000).Draw(t, "len"), Via: "create",
				CancelClose: rapid.Bool().Draw(t, "cancelBeforeClose"), Cctx: rapid.IntRange(0, 5).Draw(t, "cctx") == 0})
		}
	}
	return c
}

func TestC12Files(t *testing.T) { ev.Check(t, "C12", "files", genC12Files, Exec) }
