package seq

import (
	"os"
	"testing"
)

func TestMain(m *testing.M) {
	if os.Getenv("VERIF_CHILD") != "" {
		ChildMain()
		os.Exit(0)
	}
	os.Exit(m.Run())
}

func TestChildNoop(t *testing.T) {}
