package seq

import (
	"bytes"
	"context"
	"errors"
	"fmt"
	"io"
	"strings"
	"sync"
	"sync/atomic"
	"syscall"
	"time"

	"google.golang.org/grpc/codes"
	"google.golang.org/grpc/metadata"
	"google.golang.org/grpc/status"

	"github.com/glebziz/fs_db"
	adapterErrors "github.com/glebziz/fs_db/internal/adapter/errors"
	store "github.com/glebziz/fs_db/internal/proto"
	"github.com/glebziz/fs_db/internal/verifh/ev"
	"github.com/glebziz/fs_db/internal/verifh/model"
	"github.com/glebziz/fs_db/internal/verifhook"
	"github.com/glebziz/fs_db/pkg/external"
)

// FaultCase is a C10 case: one write under one injected fault.
type FaultCase struct {
	Roots   int      `json:"roots"`
	Len     int      `json:"len"`
	Prev    string   `json:"prev"` // absent | value | deleted
	PrevLen int      `json:"prev_len"`
	Client  string   `json:"client"` // inline-set inline-reader inline-create ext-set ext-reader ext-create handler
	Fault   string   `json:"fault"`  // none reader-error cancel enospc recv-error
	Pos     int      `json:"pos"`    // byte position of the fault (recv-error: message index)
	Partial int      `json:"partial"`
	Faulty  []int    `json:"faulty"` // indices of roots whose file writes fail
	Free    []uint64 `json:"free"`   // reported free space per root
	RecvErr string   `json:"recv_err"`
	Split   []int    `json:"split"`
	InTx    bool     `json:"in_tx"` // write through a ReadCommitted transaction and commit afterwards
	// SrcErr: which error the failing source returns (reader-error): "" an ordinary error,
	// "unexpected-eof" io.ErrUnexpectedEOF (a truncated gzip stream, an HTTP body cut short),
	// "wrapped-eof" an error wrapping io.EOF, "canceled" / "deadline" the context errors.
	// SrcData: the failing Read also delivers the bytes up to the fault position (n > 0 together with err).
	SrcErr  string `json:"src_err,omitempty"`
	SrcData bool   `json:"src_data,omitempty"`
	// Linger: milliseconds the caller's source stalls right after the context was cancelled (fault "cancel").
	Linger int `json:"linger,omitempty"`
	// fault "io": the IONth step of kind IOKind (os.mkdir, os.create, os.readdir, badger.set) that the write
	// performs fails once with an I/O error. Fresh: nothing was written before (no set-up writes), so that the
	// write under test is the one that has to create the directories.
	// Stagger (fault "enospc"): the faulty roots do not all fail at the same offset: root number j (in the
	// configured order) fails Pos>>j bytes into its file, so a root tried later may fail EARLIER than the one before
	Stagger bool   `json:"stagger,omitempty"`
	Repeat  int    `json:"repeat,omitempty"`
	IOKind  string `json:"io_kind,omitempty"`
	IONth  int    `json:"io_nth,omitempty"`
	Fresh  bool   `json:"fresh,omitempty"`
}

var errSource = errors.New("injected source reader failure")

// faultReader delivers b, failing (or cancelling) once pos bytes have been consumed.
type faultReader struct {
	b       []byte
	off     int
	pos     int
	split   []int
	i       int
	fail    bool
	err     error // what the failing Read returns (nil = errSource)
	withDat bool  // the failing Read delivers the last bytes before pos together with the error
	cancel  context.CancelFunc
	onPos   func() // called once when the source reaches the fault position (fault "conn-break")
	linger  time.Duration // how long the source stalls right after the cancellation (whatever reacts to it asynchronously gets its chance)
	fired   *atomic.Int64
}

func sourceError(kind string) error {
	switch kind {
	case "unexpected-eof":
		return io.ErrUnexpectedEOF
	case "wrapped-eof":
		return fmt.Errorf("read body: %w", io.EOF)
	case "canceled":
		return context.Canceled
	case "deadline":
		return context.DeadlineExceeded
	}
	return errSource
}

func (f *faultReader) Read(p []byte) (int, error) {
	if f.fail && f.withDat && f.off < f.pos && f.pos <= len(f.b) && f.pos-f.off <= len(p) && len(f.split) == 0 {
		n := copy(p, f.b[f.off:f.pos])
		f.off += n
		f.fired.Add(1)
		return n, f.err
	}
	if f.fail && f.off >= f.pos {
		f.fired.Add(1)
		return 0, f.err
	}
	if f.onPos != nil && f.off >= f.pos {
		f.fired.Add(1)
		f.onPos()
		f.onPos = nil
		if f.linger > 0 {
			time.Sleep(f.linger)
		}
	}
	if f.cancel != nil && f.off >= f.pos {
		f.fired.Add(1)
		f.cancel()
		f.cancel = nil
		if f.linger > 0 {
			time.Sleep(f.linger)
		}
	}
	if f.off >= len(f.b) {
		return 0, io.EOF
	}
	n := len(p)
	if len(f.split) > 0 {
		if s := f.split[f.i%len(f.split)]; s > 0 && s < n {
			n = s
		}
		f.i++
	}
	if rem := len(f.b) - f.off; n > rem {
		n = rem
	}
	if (f.fail || f.cancel != nil || f.onPos != nil) && f.off < f.pos && f.off+n > f.pos {
		n = f.pos - f.off
	}
	copy(p, f.b[f.off:f.off+n])
	f.off += n
	return n, nil
}

type fakeSetStream struct {
	ctx    context.Context
	msgs   []*store.SetFileRequest
	i      int
	failAt int
	err    error
	fired  *atomic.Int64
	closed bool
}

func (s *fakeSetStream) Recv() (*store.SetFileRequest, error) {
	if s.failAt >= 0 && s.i >= s.failAt {
		s.fired.Add(1)
		return nil, s.err
	}
	if s.i >= len(s.msgs) {
		return nil, io.EOF
	}
	m := s.msgs[s.i]
	s.i++
	return m, nil
}
func (s *fakeSetStream) SendAndClose(*store.SetFileResponse) error { s.closed = true; return nil }
func (s *fakeSetStream) SetHeader(metadata.MD) error               { return nil }
func (s *fakeSetStream) SendHeader(metadata.MD) error              { return nil }
func (s *fakeSetStream) SetTrailer(metadata.MD)                    {}
func (s *fakeSetStream) Context() context.Context                  { return s.ctx }
func (s *fakeSetStream) SendMsg(any) error                         { return nil }
func (s *fakeSetStream) RecvMsg(any) error                         { return errors.New("not used") }

var hookActivity atomic.Int64

// waitHooksQuiet waits until no instrumented step happened for a while: the server side of an
// aborted upload finishes asynchronously, and only then is "what did it leave behind" meaningful.
func waitHooksQuiet() {
	last := hookActivity.Load()
	quiet := time.Now()
	deadline := time.Now().Add(3 * time.Second)
	for time.Since(quiet) < 40*time.Millisecond && time.Now().Before(deadline) {
		time.Sleep(2 * time.Millisecond)
		if n := hookActivity.Load(); n != last {
			last, quiet = n, time.Now()
		}
	}
}

// ExecC10 performs one faulted write and checks "error => no trace, success => complete".
func ExecC10(fc FaultCase) *ev.Result {
	// Repeat (replays of findings that depend on the order in which fs_db tries the roots, which is a
	// shuffle of its own): the case is executed up to Repeat times on fresh databases and fails if any
	// execution fails
	if fc.Repeat > 1 {
		n := fc.Repeat
		fc.Repeat = 0
		var r *ev.Result
		for i := 0; i < n; i++ {
			if r = ExecC10(fc); r.Fail != "" {
				return r
			}
		}
		return r
	}
	r := &ev.Result{}
	if fc.Roots < 1 {
		fc.Roots = 1
	}
	c := Case{Prof: "c10", Keys: []string{"k", "other"}, Roots: fc.Roots, MaxDir: 100, External: strings.HasPrefix(fc.Client, "ext-")}
	w, err := NewWorld(c, r)
	if err != nil {
		r.Failf("opening a fresh database failed: %v", err)
		return r
	}
	defer func() {
		verifhook.SetWrite(nil)
		verifhook.SetFree(nil)
		w.Close()
	}()
	const key = "k"
	// previous state of the key, plus an unrelated key that must never change
	otherV := model.Val{Len: 10, Seed: 4242}
	if fc.Fresh {
		fc.Prev = "absent"
	} else {
		if err := w.DB.Set(w.ctx, "other", model.Bytes(otherV)); err != nil {
			r.Failf("setup write failed: %v", err)
			return r
		}
		w.M.Write(0, "other", otherV)
		w.noteContent(model.Bytes(otherV), "the unrelated key's content")
	}
	switch fc.Prev {
	case "value", "deleted":
		pv := model.Val{Len: fc.PrevLen, Seed: 777}
		w.noteContent(model.Bytes(pv), "the previous value")
		if err := w.DB.Set(w.ctx, key, model.Bytes(pv)); err != nil {
			r.Failf("setup write failed: %v", err)
			return r
		}
		w.M.Write(0, key, pv)
		if fc.Prev == "deleted" {
			if err := w.DB.Delete(w.ctx, key); err != nil {
				r.Failf("setup delete failed: %v", err)
				return r
			}
			w.M.Write(0, key, model.Val{Del: true})
		}
	}
	nv := model.Val{Len: fc.Len, Seed: 99}
	src := model.Bytes(nv)
	w.noteContent(src, "the complete new content")

	// ---- install the faults ----
	var fired atomic.Int64
	roots := w.Cfg.Storage.RootDirs
	faulty := map[string]bool{}
	for _, i := range fc.Faulty {
		faulty[roots[((i%len(roots))+len(roots))%len(roots)]] = true
	}
	var mu sync.Mutex
	written := map[string]int{}
	var ioSeen atomic.Int64
	verifhook.SetPoint(func(kind, arg string) error {
		hookActivity.Add(1)
		if fc.Fault == "io" && kind == fc.IOKind && ioSeen.Add(1) == int64(fc.IONth) {
			fired.Add(1)
			return fmt.Errorf("%s %s: %w", kind, arg, syscall.EIO)
		}
		return nil
	})
	verifhook.SetWrite(func(path string, size int) (int, error) {
		hookActivity.Add(1)
		if fc.Fault != "enospc" {
			return size, nil
		}
		bad := false
		pos := fc.Pos
		for root := range faulty {
			if strings.HasPrefix(path, root+"/") {
				bad = true
				if fc.Stagger {
					for j, rt := range roots {
						if rt == root {
							pos = fc.Pos >> uint(j)
						}
					}
				}
			}
		}
		mu.Lock()
		defer mu.Unlock()
		off := written[path]
		if bad && off+size > pos {
			fired.Add(1)
			allow := fc.Partial
			if allow >= size { // a write that stored everything does not fail
				allow = size - 1
			}
			if allow < 0 {
				allow = 0
			}
			written[path] = off + allow
			return allow, syscall.ENOSPC
		}
		written[path] = off + size
		return size, nil
	})
	if len(fc.Free) > 0 {
		verifhook.SetFree(func(root string, actual uint64) uint64 {
			for i, rt := range roots {
				if rt == root && i < len(fc.Free) {
					return fc.Free[i]
				}
			}
			return actual
		})
	}

	// ---- the write ----
	ctx, cancel := context.WithCancel(context.Background())
	defer cancel()
	fr := &faultReader{b: src, pos: fc.Pos, split: fc.Split, fired: &fired}
	switch fc.Fault {
	case "reader-error":
		fr.fail, fr.err, fr.withDat = true, sourceError(fc.SrcErr), fc.SrcData
	case "conn-break":
		// the connection to the server breaks in the middle of the upload (the server drops all its
		// connections); the client is left with a dead connection
		fr.onPos = func() { w.ext.breakFn() }
		fr.linger = time.Duration(fc.Linger) * time.Millisecond
	case "cancel":
		fr.cancel = cancel
		fr.linger = time.Duration(fc.Linger) * time.Millisecond
	}
	var target fs_db.Store = w.DB
	var tx fs_db.Tx
	if fc.InTx && fc.Client != "handler" {
		tx, err = w.DB.Begin(w.ctx, fs_db.IsoLevelReadCommitted)
		if err != nil {
			r.Failf("Begin failed: %v", err)
			return r
		}
		target = tx
	}
	var werr error
	switch fc.Client {
	case "inline-set", "ext-set":
		werr = target.Set(ctx, key, src)
	case "inline-reader", "ext-reader":
		werr = target.SetReader(ctx, key, fr)
	case "inline-create", "ext-create":
		var f fs_db.File
		f, werr = target.Create(ctx, key)
		if werr == nil {
			buf := make([]byte, 32*1024)
			for {
				n, rerr := fr.Read(buf)
				if n > 0 {
					if _, werr = f.Write(buf[:n]); werr != nil {
						break
					}
				}
				if rerr == io.EOF {
					break
				}
				if rerr != nil {
					werr = rerr // the caller's own source failed: it abandons the file
					break
				}
			}
			cerr := f.Close()
			if werr == nil {
				werr = cerr
			}
		}
	case "handler":
		msgs := []*store.SetFileRequest{{Data: &store.SetFileRequest_Header{Header: &store.FileHeader{Key: key}}}}
		for off := 0; off < len(src); off += 2048 {
			end := off + 2048
			if end > len(src) {
				end = len(src)
			}
			msgs = append(msgs, &store.SetFileRequest{Data: &store.SetFileRequest_Chunk{Chunk: src[off:end]}})
		}
		fs := &fakeSetStream{ctx: ctx, msgs: msgs, failAt: -1, fired: &fired}
		if fc.Fault == "recv-error" {
			fs.failAt = fc.Pos % (len(msgs) + 1)
			switch fc.RecvErr {
			case "unavailable":
				fs.err = status.Error(codes.Unavailable, "transport is closing")
			case "unexpected-eof":
				fs.err = io.ErrUnexpectedEOF
			default:
				fs.err = status.Error(codes.Canceled, "context canceled")
			}
		}
		werr = w.Cont.StoreService().SetFile(fs)
		if werr != nil {
			werr = adapterErrors.ClientError(werr) // what a client makes of the handler's status
		}
		if werr == nil && !fs.closed {
			r.Failf("handler returned nil without sending its response")
			return r
		}
	default:
		panic("harness: unknown client " + fc.Client)
	}
	if tx != nil {
		// the statement is about the write call; whatever it reported, committing must publish
		// exactly what the transaction holds
		if cerr := tx.Commit(w.ctx); cerr != nil {
			r.Failf("Commit after the write failed: %v", cerr)
			return r
		}
	}
	verifhook.SetWrite(nil)
	verifhook.SetPoint(func(kind, arg string) error { hookActivity.Add(1); return nil })
	if c.External || fc.Client == "handler" {
		waitHooksQuiet()
	}
	if fc.Fault == "conn-break" && fired.Load() > 0 {
		// the server is started again on the same directories; a new client reads
		if tx != nil {
			r.Failf("harness: conn-break inside a transaction is not generated")
			return r
		}
		if err := w.Reopen(); err != nil {
			r.Failf("restarting the server after the connection broke failed: %v", err)
			return r
		}
	}

	// ---- oracle ----
	didFire := fired.Load() > 0
	r.NonTrivial = didFire
	r.Class("client-"+fc.Client, "fault-"+fc.Fault)
	if didFire {
		r.Class("fault-fired")
	}
	faultName := fc.Fault
	if fc.Fault == "io" {
		faultName = fmt.Sprintf("io (I/O error at step %d of kind %s, fresh database %v)", fc.IONth, fc.IOKind, fc.Fresh)
	}
	desc := fmt.Sprintf("%s of %d bytes over prev=%s, fault %s at %d (partial %d, faulty roots %v, free %v, source error %q with data %v, fired=%v) returned %v",
		fc.Client, fc.Len, fc.Prev, faultName, fc.Pos, fc.Partial, fc.Faulty, fc.Free, fc.SrcErr, fc.SrcData, didFire, werr)
	mustFail, mustSucceed := false, false
	switch {
	case !didFire:
		mustSucceed = true
	case fc.Fault == "reader-error" || fc.Fault == "recv-error" || fc.Fault == "conn-break":
		mustFail = true // an incomplete source can never be reported as a completed write
	case fc.Fault == "enospc":
		// must succeed iff some healthy root reports more free space than every faulty root
		// (then, whatever the shuffle, the write either lands there first or continues there)
		allFaulty := len(faulty) >= len(roots)
		if allFaulty {
			mustFail = true
		} else if len(fc.Free) >= len(roots) {
			var maxFaulty, maxHealthy uint64
			for i, rt := range roots {
				if faulty[rt] {
					if fc.Free[i] > maxFaulty {
						maxFaulty = fc.Free[i]
					}
				} else if fc.Free[i] > maxHealthy {
					maxHealthy = fc.Free[i]
				}
			}
			if maxHealthy > maxFaulty {
				mustSucceed = true
			}
		}
	}
	if werr != nil {
		if mustSucceed {
			r.Failf("%s: the write had to succeed", desc)
			return r
		}
		if fc.Fault == "enospc" && len(faulty) >= len(roots) && Class(werr) != model.ErrNoFreeSpace {
			r.Failf("%s: all roots are out of space, want ErrNoFreeSpace", desc)
			return r
		}
		r.Class("write-failed")
		// error => the key keeps what it had; nothing else changed
	} else {
		if mustFail {
			// report what it left behind for the message
			got, gerr := w.DB.Get(w.ctx, key)
			r.Failf("%s: the write had to fail; the key now reads %s (%v)", desc, w.describe(got), gerr)
			return r
		}
		r.Class("write-succeeded")
		w.M.Write(0, key, nv)
	}
	// independent readers: the same client, and (external) a second connection
	if !w.ReadBackAuto(desc + "; afterwards") {
		return r
	}
	if c.External {
		db2, err := external.Open(context.Background(), w.ext.addr)
		if err == nil {
			got, gerr := db2.Get(context.Background(), key)
			cands, _ := w.M.Read(0, key)
			ok := false
			for _, cv := range cands {
				if cv.Del && Class(gerr) == model.ErrNotFound || !cv.Del && gerr == nil && bytes.Equal(got, model.Bytes(cv)) {
					ok = true
				}
			}
			if !ok {
				r.Failf("%s; afterwards a second client reads %s (%v)", desc, w.describe(got), gerr)
			}
		}
	}
	if r.Fail != "" {
		return r
	}
	// whatever went wrong is over: the next write (no faults any more) succeeds and is what everybody reads -
	// a failed write leaves nothing behind that gets in the way of the next one, and every root still
	// offers a directory
	fv := model.Val{Len: 1 + fc.Len%4000, Seed: 31337}
	w.noteContent(model.Bytes(fv), "the follow-up write's content")
	if err := w.DB.Set(w.ctx, key, model.Bytes(fv)); err != nil {
		r.Failf("%s; a follow-up write without any fault then failed: %v", desc, err)
		return r
	}
	w.M.Write(0, key, fv)
	w.ReadBackAuto(desc + "; after a follow-up write")
	return r
}
