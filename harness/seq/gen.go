package seq

import (
	"strings"

	"pgregory.net/rapid"
)

var simpleKeys = []string{"a", "b", "c", "d", "e"}

var exoticKeys = []string{
	"\x00", "/", "..", "../x", "a/b", "é", "é", "😀", "k\nl", " ", "ключ", "a\x00b", "%s%d", "file/00000000-0000-0000-0000-000000000000",
	"fileContent/x", "A", "aa", "ab", " ", "~",
}

var lenBoundaries = []int{0, 1, 2, 2047, 2048, 2049, 4095, 4096, 4097, 32767, 32768, 32769, 65535, 65536, 65537}

// GenLen draws a content length biased towards the chunk (2048) and copy-buffer (32 KiB) boundaries.
func GenLen(t *rapid.T, big bool) int {
	if !big {
		return rapid.OneOf(rapid.IntRange(0, 40), rapid.SampledFrom([]int{0, 1, 2047, 2048, 2049})).Draw(t, "len")
	}
	// rarely a content of megabytes (hundreds of copy buffers, thousands of gRPC chunks, more than the
	// in-memory backlog of a created file holds)
	if rapid.IntRange(0, 399).Draw(t, "huge") == 0 {
		return rapid.SampledFrom([]int{1<<20 + 1, 3<<20 - 1}).Draw(t, "hugeLen")
	}
	return rapid.OneOf(
		rapid.SampledFrom(lenBoundaries),
		rapid.IntRange(0, 100),
		rapid.IntRange(0, 5000),
		rapid.IntRange(0, 100*1024),
	).Draw(t, "len")
}

// GenKeys draws a pool of distinct valid-UTF-8 keys.
func GenKeys(t *rapid.T, min, max int, exotic bool) []string {
	n := rapid.IntRange(min, max).Draw(t, "nkeys")
	seen := map[string]bool{}
	var out []string
	for len(out) < n {
		var k string
		if exotic && rapid.IntRange(0, 2).Draw(t, "keyKind") > 0 {
			switch rapid.IntRange(0, 9).Draw(t, "exoticKind") {
			case 0:
				// a long key: 256 bytes ... 1 MiB (lengths are BYTES; the gRPC binding cannot carry a request
				// above its 4 MiB message limit, so keys stay well below that - see DESIGN 10.2)
				rep := rapid.SampledFrom([]string{"x", "é", "/", "😀"}).Draw(t, "rep")
				n := rapid.OneOf(rapid.IntRange(60, 300), rapid.IntRange(256, 4096), rapid.SampledFrom([]int{4089, 4096, 5000, 20000, 60000, 60000, 1048600})).Draw(t, "replen")
				cnt := n / len(rep)
				if cnt < 1 {
					cnt = 1
				}
				k = strings.Repeat(rep, cnt)
				// multi-byte characters at every byte offset: a short ASCII prefix shifts them (a text that is cut
				// at a fixed byte count then ends inside a character)
				if len(rep) > 1 {
					k = strings.Repeat("k", rapid.IntRange(0, 3).Draw(t, "shift")) + k
				}
			case 1:
				k = rapid.StringN(1, 12, -1).Draw(t, "anyString") // any valid UTF-8
			default:
				k = rapid.SampledFrom(exoticKeys).Draw(t, "exotic")
			}
		} else {
			k = simpleKeys[len(out)%len(simpleKeys)]
		}
		if k == "" || seen[k] || k == neverKey {
			k = simpleKeys[len(out)%len(simpleKeys)] + strings.Repeat("'", len(out))
		}
		if seen[k] {
			continue
		}
		seen[k] = true
		out = append(out, k)
	}
	return out
}

// GenBinKeys draws 0-2 keys that are not valid UTF-8 (hex encoded, for Case.KeysHex).
func GenBinKeys(t *rapid.T) []string {
	var out []string
	if rapid.IntRange(0, 3).Draw(t, "binKeys") == 0 {
		for n := rapid.IntRange(1, 2).Draw(t, "nBinKeys"); n > 0; n-- {
			out = append(out, rapid.SampledFrom([]string{"ff", "61ff62", "c328", "fffe00", "e28228", "6b00ff"}).Draw(t, "binKey"))
		}
	}
	return out
}

// GenVia draws the write path and its splitting.
// CopyPiece added to a create split size marks a piece that is written with io.Copy.
const CopyPiece = 1 << 24

// SrcKinds are the concrete source types of World.source.
var SrcKinds = []string{"bytes", "bytes-consumed", "bytes-consumed", "strings-consumed", "section", "section-consumed", "buffer", "bufio", "limited", "multi", "pipe"}

// GenSrc draws the source type for a write through SetReader: half of them the harness's own reader with
// its splitting habits, half a standard-library reader (fresh or partly consumed).
func GenSrc(t *rapid.T, via string) string {
	if via != "reader" || rapid.Bool().Draw(t, "ownReader") {
		return ""
	}
	return rapid.SampledFrom(SrcKinds).Draw(t, "src")
}

// GenCancelClose: now and then the context a file was created with is cancelled before the file is closed.
func GenCancelClose(t *rapid.T, via string) bool {
	return via == "create" && rapid.IntRange(0, 4).Draw(t, "cancelBeforeClose") == 0
}

func GenVia(t *rapid.T, length int) (string, []int) {
	switch rapid.IntRange(0, 5).Draw(t, "via") {
	case 0, 1, 2:
		return "", nil
	case 3:
		return "reader", rapid.SliceOfN(rapid.SampledFrom([]int{0, 1, 7, 512, 2047, 2048, 2049, 32768, 40000, ZeroRead}), 0, 4).Draw(t, "rsplit")
	default:
		sizes := []int{0, 0, 1, 100, 2047, 2048, 2049, 32767, 32768, 32769}
		if length > 20000 {
			sizes = []int{0, 0, 2047, 2048, 2049, 32767, 32768, 32769, 50000}
		}
		split := rapid.SliceOfN(rapid.SampledFrom(sizes), 0, 6).Draw(t, "csplit")
		// some pieces are handed over with io.Copy from a plain reader instead of a direct Write
		// (which uses the file's ReadFrom if it ever grows one)
		if mask := rapid.SampledFrom([]int{0, 0, 1, 2, 5, 63}).Draw(t, "copyMask"); mask != 0 {
			for i := range split {
				if mask>>uint(i)&1 == 1 {
					split[i] += CopyPiece
				}
			}
		}
		return "create", split
	}
}
