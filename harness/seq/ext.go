package seq

import (
	"context"
	"errors"
	"fmt"
	"net"
	"time"

	"google.golang.org/grpc"
	"google.golang.org/grpc/credentials/insecure"
	"google.golang.org/grpc/metadata"

	adapterErrors "github.com/glebziz/fs_db/internal/adapter/errors"
	"github.com/glebziz/fs_db/internal/app"
	store "github.com/glebziz/fs_db/internal/proto"
	"github.com/glebziz/fs_db/internal/utils/grpc/interceptors/server"
	"github.com/glebziz/fs_db/pkg/external"
)

// extServer is an fs_db server (internal/app) serving on a loopback listener chosen by the
// harness, plus nothing else: clients connect with pkg/external.Open.
type extServer struct {
	cancel context.CancelFunc
	stopFn func() error
	// breakFn drops every connection of the server at once (and stops it listening): what a client sees
	// when the connection to the server breaks. The database behind it stays open until stop.
	breakFn func()
	done   chan error
	addr   string
	conn   *grpc.ClientConn
	raw    store.StoreV1Client
}

func (w *World) openExternal() error {
	cfg := w.Cfg
	cfg.Storage.RootDirs = append([]string(nil), w.Cfg.Storage.RootDirs...)
	ctx, cancel := context.WithCancel(context.Background())
	a, err := app.New(ctx, cfg)
	if err != nil {
		cancel()
		return fmt.Errorf("app.New: %w", err)
	}
	lis, err := net.Listen("tcp", "127.0.0.1:0")
	if err != nil {
		cancel()
		return err
	}
	srv := a.VerifServer()
	done := make(chan error, 1)
	go func() { done <- srv.Serve(lis) }()
	w.ext = &extServer{cancel: cancel, done: done, addr: lis.Addr().String(), breakFn: srv.Stop, stopFn: func() error {
		srv.Stop()
		<-done
		return a.Stop()
	}}
	w.Cont = a.VerifContainer()
	conn, err := grpc.NewClient(w.ext.addr, grpc.WithTransportCredentials(insecure.NewCredentials()))
	if err != nil {
		w.ext.stop()
		w.ext = nil
		return err
	}
	w.ext.conn = conn
	w.ext.raw = store.NewStoreV1Client(conn)
	db, err := external.Open(ctx, w.ext.addr)
	if err != nil {
		w.ext.stop()
		w.ext = nil
		return fmt.Errorf("external.Open: %w", err)
	}
	w.DB = db
	if w.Cont == nil {
		return errors.New("harness: cannot reach the DI container of the app")
	}
	// The client connects lazily and its calls are fail-fast: on a badly overloaded machine the very
	// first call can fail with Unavailable while the connection is still being set up (seen once in a
	// thorough sweep: step 0 returned ErrUnknown, never reproduced). Connection set-up is not part of
	// any history: wait until one call has gone through.
	var werr error
	for i := 0; i < 100; i++ {
		if _, werr = db.GetKeys(ctx); werr == nil {
			if !w.probed {
				// the very first transaction of the first incarnation, ended at once (see probeTxID)
				w.probed = true
				w.probeTxID()
			}
			return nil
		}
		time.Sleep(100 * time.Millisecond)
	}
	w.ext.stop()
	w.ext = nil
	return fmt.Errorf("the server did not become reachable: %w", werr)
}

func (e *extServer) txCtx(ctx context.Context, id string) context.Context {
	return metadata.AppendToOutgoingContext(ctx, server.TxIdKey, id)
}

func (e *extServer) rawCommit(ctx context.Context, id string) error {
	_, err := e.raw.CommitTx(e.txCtx(ctx, id), &store.CommitTxRequest{})
	if err != nil {
		return adapterErrors.ClientError(err)
	}
	return nil
}

func (e *extServer) rawRollback(ctx context.Context, id string) error {
	_, err := e.raw.RollbackTx(e.txCtx(ctx, id), &store.RollbackTxRequest{})
	if err != nil {
		return adapterErrors.ClientError(err)
	}
	return nil
}

// probeTxID begins a transaction directly on the wire, ends it at once and remembers its id (usable as a
// "stale" id after the next restart of the server).
func (w *World) probeTxID() {
	if w.ext == nil || w.ext.raw == nil {
		return
	}
	resp, err := w.ext.raw.BeginTx(context.Background(), &store.BeginTxRequest{})
	if err != nil {
		return
	}
	_ = w.ext.rawRollback(context.Background(), resp.GetId())
	w.staleIDs = append(w.staleIDs, resp.GetId())
}

func (e *extServer) stop() {
	if e.conn != nil {
		e.conn.Close()
	}
	_ = e.stopFn()
	e.cancel()
}
