package seq

import (
	"testing"

	"pgregory.net/rapid"

	"github.com/glebziz/fs_db/internal/verifh/ev"
)

// genC02Chain: long version chains of one key under snapshot transactions of different ages (the
// per-key version list is searched by a hand-written binary search; lists of 20-60 versions with
// snapshot points anywhere inside them are not reached by the general generator).
func genC02Chain(t *rapid.T) Case {
	c := Case{Prof: "c02", Roots: 1, MaxDir: 100, Keys: []string{"a", "b"}}
	n := rapid.IntRange(18, 60).Draw(t, "chain")
	nsnap := rapid.IntRange(1, 3).Draw(t, "snapshots")
	at := map[int]bool{}
	for i := 0; i < nsnap; i++ {
		at[rapid.IntRange(0, n-1).Draw(t, "snapAt")] = true
	}
	for i := 0; i < n; i++ {
		if at[i] {
			c.Ops = append(c.Ops, Op{K: "begin", Lvl: rapid.SampledFrom([]int{2, 3}).Draw(t, "lvl")})
		}
		k := "set"
		if rapid.IntRange(0, 9).Draw(t, "del") == 0 {
			k = "del"
		}
		c.Ops = append(c.Ops, Op{K: k, Key: 0, Len: rapid.IntRange(0, 5).Draw(t, "len")})
		switch rapid.IntRange(0, 11).Draw(t, "extra") {
		case 0:
			c.Ops = append(c.Ops, Op{K: "gc"})
		case 1:
			c.Ops = append(c.Ops, Op{K: "set", Key: 1, Len: 1})
		case 2:
			c.Ops = append(c.Ops, Op{K: "begin", Lvl: 1}, Op{K: "set", Last: true, Key: 0, Len: 2}, Op{K: "commit", Last: true})
		}
	}
	return c
}

func genC02(t *rapid.T) Case {
	if rapid.IntRange(0, 4).Draw(t, "chainProfile") == 0 {
		return genC02Chain(t)
	}
	c := Case{Prof: "c02", Roots: 1, MaxDir: 100}
	c.Keys = GenKeys(t, 3, 5, false)
	c.Ops = GenTxOps(t, TxGenOpts{MinOps: 5, MaxOps: 60, Weights: map[string]int{
		"begin": 5, "set": 10, "del": 3, "get": 2, "keys": 1, "commit": 4, "rollback": 2, "gc": 3, "otherdb": 1}})
	if rapid.IntRange(0, 2).Draw(t, "withScenario") == 0 {
		sc := GenConflictScenario(t)
		at := rapid.IntRange(0, len(c.Ops)).Draw(t, "scAt")
		c.Ops = append(c.Ops[:at:at], append(sc, c.Ops[at:]...)...)
	}
	// dozens of keys visible at once, written by autocommit callers or inside an open transaction
	if rapid.IntRange(0, 7).Draw(t, "manyKeys") == 0 {
		at := rapid.IntRange(0, len(c.Ops)).Draw(t, "manyAt")
		bop := Op{K: "txburst", N: rapid.SampledFrom([]int{17, 21, 40, 100}).Draw(t, "manyN"), H: rapid.IntRange(0, 3).Draw(t, "manyActor")}
		c.Ops = append(c.Ops[:at:at], append([]Op{bop}, c.Ops[at:]...)...)
	}
	return c
}

func TestC02(t *testing.T) { ev.Check(t, "C02", "seq", genC02, Exec) }

func genC03(t *rapid.T) Case {
	c := Case{Prof: "c03", Roots: 1, MaxDir: 100}
	c.Keys = GenKeys(t, 2, 4, false)
	c.Ops = GenTxOps(t, TxGenOpts{MinOps: 5, MaxOps: 40, Weights: map[string]int{
		"begin": 6, "set": 12, "del": 4, "commit": 7, "rollback": 2, "gc": 1, "otherdb": 1}})
	// scripted conflict fragments before, between and after the random operations
	for n := rapid.IntRange(0, 3).Draw(t, "scenarios"); n > 0; n-- {
		sc := GenConflictScenario(t)
		// a caller that retries: Commit (or the deferred Rollback) once more on the transaction that just ended,
		// whatever the first Commit returned - nothing may be committed by it and it must not report success
		if rapid.IntRange(0, 2).Draw(t, "retry") == 0 {
			sc = append(sc, Op{K: rapid.SampledFrom([]string{"commit", "commit", "rollback"}).Draw(t, "retryKind"), Late: true, Recent: true})
		}
		at := rapid.IntRange(0, len(c.Ops)).Draw(t, "scAt")
		c.Ops = append(c.Ops[:at:at], append(sc, c.Ops[at:]...)...)
	}
	// two or three transactions in a row that each write 6-12 distinct keys (more than the handful of the key
	// pool): every key of every commit has to be there afterwards
	if rapid.IntRange(0, 3).Draw(t, "wideTxs") == 0 {
		var frag []Op
		for n := rapid.IntRange(2, 3).Draw(t, "nWide"); n > 0; n-- {
			frag = append(frag, Op{K: "begin", Lvl: rapid.IntRange(0, 3).Draw(t, "wideLvl")},
				Op{K: "txburst", Last: true, N: rapid.IntRange(6, 12).Draw(t, "wideN")},
				Op{K: rapid.SampledFrom([]string{"commit", "commit", "commit", "rollback"}).Draw(t, "wideEnd"), Last: true})
		}
		at := rapid.IntRange(0, len(c.Ops)).Draw(t, "wideAt")
		c.Ops = append(c.Ops[:at:at], append(frag, c.Ops[at:]...)...)
	}
	// two wide transactions that overlap in time and write DISJOINT sets of 8-16 fresh keys: whatever the level,
	// neither stands in the other's way (the "only if" half of the conflict rule, over many key pairs)
	if rapid.IntRange(0, 3).Draw(t, "wideOverlap") == 0 {
		la, lb := rapid.SampledFrom([]int{2, 3, 2, 1}).Draw(t, "woLvlA"), rapid.IntRange(0, 3).Draw(t, "woLvlB")
		frag := []Op{{K: "begin", Lvl: la}, {K: "begin", Lvl: lb},
			{K: "txburst", H: -2, N: rapid.IntRange(8, 16).Draw(t, "woNA")}, {K: "txburst", Last: true, N: rapid.IntRange(8, 16).Draw(t, "woNB")},
			{K: "commit", Last: true}, {K: "commit", Last: true}}
		c.Ops = append(frag, c.Ops...) // at the start, so that the two transactions are the only open ones
		frag[2].H = 1
	}
	return c
}

func TestC03(t *testing.T) { ev.Check(t, "C03", "seq", genC03, Exec) }

func genC09(t *rapid.T) Case {
	c := Case{Prof: "c09", Roots: 1, MaxDir: 100}
	c.Keys = GenKeys(t, 2, 4, false)
	c.Workers = rapid.SampledFrom([]int{0, 0, 1, 8}).Draw(t, "workers")
	c.FastGC = rapid.IntRange(0, 3).Draw(t, "fastGC") == 0
	dense := rapid.Bool().Draw(t, "denseGC")
	gcw := 6
	if dense {
		gcw = 0
	}
	ops := GenTxOps(t, TxGenOpts{MinOps: 5, MaxOps: 45, Weights: map[string]int{
		"begin": 5, "set": 10, "del": 3, "get": 1, "commit": 4, "rollback": 2, "gc": gcw}})
	for n := rapid.IntRange(0, 2).Draw(t, "collectorScenarios"); n > 0; n-- {
		sc := GenCollectorScenario(t)
		at := rapid.IntRange(0, len(ops)).Draw(t, "gcAt")
		ops = append(ops[:at:at], append(sc, ops[at:]...)...)
	}
	// a commit that was overtaken by somebody else's write to the same key, watched by a ReadUncommitted
	// reader across a collector run (the overtaken version is garbage: removing it must not change the answer)
	for n := rapid.IntRange(0, 2).Draw(t, "overtaken"); n > 0; n-- {
		sc := GenOvertakenCommit(t)
		if rapid.Bool().Draw(t, "ruBefore") {
			sc = append([]Op{{K: "begin", Lvl: 0}}, sc...)
		} else {
			sc = append(sc, Op{K: "begin", Lvl: 0})
		}
		sc = append(sc, Op{K: "gc"})
		at := rapid.IntRange(0, len(ops)).Draw(t, "otAt")
		ops = append(ops[:at:at], append(sc, ops[at:]...)...)
	}
	// the collector runs while somebody has files open that are still being written (op files with a length
	// of 4q+1 runs it between the last Write and the first Close), with garbage to collect in the same directory
	if rapid.IntRange(0, 2).Draw(t, "filesOpen") == 0 {
		k := rapid.IntRange(0, 1).Draw(t, "foKey")
		frag := []Op{{K: "set", Key: k, Len: 3}, {K: "set", Key: k, Len: 4}, {K: "files", N: rapid.IntRange(2, 3).Draw(t, "foN"), Len: 4*rapid.IntRange(0, 500).Draw(t, "foLen") + 1}}
		at := rapid.IntRange(0, len(ops)).Draw(t, "foAt")
		ops = append(ops[:at:at], append(frag, ops[at:]...)...)
	}
	// a content of a megabyte, read through GetReader handles that stay open while it is overwritten and collected
	if rapid.IntRange(0, 3).Draw(t, "largeHeld") == 0 {
		k := rapid.IntRange(0, 1).Draw(t, "lhKey")
		frag := []Op{{K: "set", Key: k, Len: 1<<20 + 1}, {K: "set", Key: k, Len: 5}, {K: "gc"}}
		at := rapid.IntRange(0, len(ops)).Draw(t, "lhAt")
		ops = append(ops[:at:at], append(frag, ops[at:]...)...)
	}
	if dense { // the collector after every step (and before the first)
		c.Ops = append(c.Ops, Op{K: "gc"})
		for _, op := range ops {
			c.Ops = append(c.Ops, op, Op{K: "gc"})
			if rapid.IntRange(0, 5).Draw(t, "twice") == 0 {
				c.Ops = append(c.Ops, Op{K: "gc"})
			}
		}
	} else {
		c.Ops = ops
	}
	return c
}

func TestC09(t *testing.T) { ev.Check(t, "C09", "seq", genC09, ExecC09) }

func genC13(t *rapid.T) Case {
	c := Case{Prof: "c13", Roots: 1, MaxDir: 100}
	c.Keys = GenKeys(t, 2, 4, false)
	c.Ops = GenTxOps(t, TxGenOpts{MinOps: 8, MaxOps: 50, LateWeight: 35, Weights: map[string]int{
		"begin": 7, "set": 8, "del": 3, "get": 3, "getr": 1, "keys": 2, "commit": 5, "rollback": 4, "gc": 1, "otherdb": 1}})
	// scripted fragments: a transaction ends in each possible way (commit, conflict-aborted commit,
	// rollback) and is then used again at once, while observers stay open
	for n := rapid.IntRange(0, 3).Draw(t, "fragments"); n > 0; n-- {
		frag := GenConflictScenario(t)
		if rapid.IntRange(0, 3).Draw(t, "endByRollback") == 0 {
			frag[len(frag)-1] = Op{K: "rollback", Last: true}
		}
		frag = append(frag, GenLateOps(t)...)
		// everyone reads after the late calls (read-back does that), and a later commit-all must not publish them
		at := rapid.IntRange(0, len(c.Ops)).Draw(t, "fragAt")
		c.Ops = append(c.Ops[:at:at], append(frag, c.Ops[at:]...)...)
	}
	// a restart at the end: nothing a late call did may survive it
	c.Ops = append(c.Ops, Op{K: "reopen"})
	return c
}

func TestC13(t *testing.T) { ev.Check(t, "C13", "seq", genC13, Exec) }
