package seq

import (
	"testing"

	"pgregory.net/rapid"

	"github.com/glebziz/fs_db/internal/verifh/ev"
)

var faultLens = []int{0, 1, 100, 2047, 2048, 2049, 4096, 5000, 32767, 32768, 32769, 40000, 65536, 65537, 70000, 100000}

func genPos(t *rapid.T, l int) int {
	cands := []int{0, 1, 2047, 2048, 2049, 32767, 32768, 32769, l - 1, l, l + 1, l - 100, (l / 32768) * 32768, (l/32768)*32768 + 1, (l/2048)*2048 + 1}
	var ok []int
	for _, c := range cands {
		if c >= 0 && c <= l+1 {
			ok = append(ok, c)
		}
	}
	if rapid.Bool().Draw(t, "posBoundary") {
		return rapid.SampledFrom(ok).Draw(t, "pos")
	}
	return rapid.IntRange(0, l+1).Draw(t, "posAny")
}

// genContinuation draws the multi-root continuation case directly: all roots but one run out of
// space somewhere in the content (often in its last, shorter chunk), the healthy root reports more
// free space than the failing ones, so the write has to continue there and store the exact bytes.
func genContinuation(t *rapid.T) FaultCase {
	fc := FaultCase{Fault: "enospc"}
	fc.Client = rapid.SampledFrom([]string{"inline-set", "inline-reader", "inline-create", "ext-set", "ext-reader", "ext-create", "handler"}).Draw(t, "client")
	fc.Roots = rapid.IntRange(2, 3).Draw(t, "roots")
	healthy := rapid.IntRange(0, fc.Roots-1).Draw(t, "healthy")
	for i := 0; i < fc.Roots; i++ {
		if i == healthy {
			fc.Free = append(fc.Free, 1<<40)
		} else {
			fc.Faulty = append(fc.Faulty, i)
			fc.Free = append(fc.Free, rapid.SampledFrom([]uint64{1 << 20, 1 << 30}).Draw(t, "freeFaulty"))
		}
	}
	fc.Len = rapid.OneOf(rapid.SampledFrom([]int{2049, 5000, 32769, 40000, 65537, 70000, 100000}), rapid.IntRange(1, 100000)).Draw(t, "len")
	lastChunk := (fc.Len - 1) / 32768 * 32768
	fc.Pos = rapid.OneOf(rapid.SampledFrom([]int{0, 1, lastChunk, lastChunk + 1, fc.Len - 1}), rapid.IntRange(0, fc.Len-1)).Draw(t, "pos")
	if fc.Pos < 0 {
		fc.Pos = 0
	}
	fc.Partial = rapid.SampledFrom([]int{0, 0, 1, 100, 2047, 32767}).Draw(t, "partial")
	fc.Stagger = fc.Roots == 3 && rapid.Bool().Draw(t, "stagger")
	fc.Prev = rapid.SampledFrom([]string{"absent", "value", "deleted"}).Draw(t, "prev")
	fc.PrevLen = 3
	if fc.Client == "inline-reader" || fc.Client == "ext-reader" || fc.Client == "inline-create" || fc.Client == "ext-create" {
		fc.Split = rapid.SliceOfN(rapid.SampledFrom([]int{0, 1, 100, 2047, 2048, 2049, 32768, 50000}), 0, 3).Draw(t, "split")
	}
	return fc
}

func genC10(t *rapid.T) FaultCase {
	if rapid.IntRange(0, 3).Draw(t, "continuation") == 0 {
		return genContinuation(t)
	}
	fc := FaultCase{}
	fc.Client = rapid.SampledFrom([]string{"inline-set", "inline-reader", "inline-reader", "inline-create", "ext-set", "ext-reader", "ext-reader", "ext-create", "handler"}).Draw(t, "client")
	fc.Roots = rapid.IntRange(1, 3).Draw(t, "roots")
	fc.Len = rapid.OneOf(rapid.SampledFrom(faultLens), rapid.IntRange(0, 70000)).Draw(t, "len")
	fc.Prev = rapid.SampledFrom([]string{"absent", "value", "deleted"}).Draw(t, "prev")
	fc.PrevLen = rapid.SampledFrom([]int{0, 3, 2048, 40000}).Draw(t, "prevLen")
	fc.InTx = rapid.IntRange(0, 4).Draw(t, "inTx") == 0
	var faults []string
	switch fc.Client {
	case "inline-set", "ext-set":
		faults = []string{"enospc", "enospc", "none"}
	case "inline-reader", "ext-reader":
		faults = []string{"reader-error", "reader-error", "cancel", "enospc", "enospc", "none"}
	case "inline-create", "ext-create":
		faults = []string{"cancel", "cancel", "enospc", "enospc", "none"} // a File has no source reader; abandoning it is Close
	default:
		faults = []string{"recv-error", "recv-error", "recv-error", "enospc", "none"}
	}
	if fc.Client == "ext-reader" || fc.Client == "ext-create" {
		faults = append(faults, "conn-break", "conn-break")
	}
	if fc.Client != "handler" {
		faults = append(faults, "io")
	}
	fc.Fault = rapid.SampledFrom(faults).Draw(t, "fault")
	if fc.Fault == "io" {
		// a step of the write fails once with an I/O error: creating a directory (only a write into an empty
		// database creates any), listing one, creating the content file, writing one of the two records
		fc.IOKind = rapid.SampledFrom([]string{"os.mkdir", "os.mkdir", "os.create", "os.readdir", "badger.set", "badger.set"}).Draw(t, "ioKind")
		fc.IONth = rapid.IntRange(1, 3).Draw(t, "ioNth")
		fc.Fresh = fc.IOKind == "os.mkdir" || rapid.IntRange(0, 3).Draw(t, "fresh") == 0
		fc.InTx = fc.InTx && !fc.Fresh
	}
	if fc.Fault == "conn-break" {
		fc.InTx = false
		fc.Linger = rapid.SampledFrom([]int{0, 1, 3}).Draw(t, "linger")
	}
	fc.Pos = genPos(t, fc.Len)
	if fc.Fault == "reader-error" {
		fc.SrcErr = rapid.SampledFrom([]string{"", "", "unexpected-eof", "unexpected-eof", "wrapped-eof", "canceled", "deadline"}).Draw(t, "srcErr")
		fc.SrcData = rapid.IntRange(0, 3).Draw(t, "srcData") == 0
	}
	if fc.Fault == "cancel" {
		fc.Linger = rapid.SampledFrom([]int{0, 1, 3}).Draw(t, "linger")
	}
	if fc.Fault == "recv-error" {
		nmsg := 1 + (fc.Len+2047)/2048
		fc.Pos = rapid.OneOf(rapid.SampledFrom([]int{0, 1, 2, nmsg - 1, nmsg}), rapid.IntRange(0, nmsg)).Draw(t, "msg")
		if fc.Pos < 0 {
			fc.Pos = 0
		}
		fc.RecvErr = rapid.SampledFrom([]string{"canceled", "unavailable", "unexpected-eof"}).Draw(t, "recvErr")
	}
	if fc.Fault == "enospc" {
		fc.Partial = rapid.SampledFrom([]int{0, 0, 1, 2, 100, 2047, 2048, 32767, 1 << 20}).Draw(t, "partial")
		// which roots fail: all of them (a third of the cases), else a non-empty proper subset where possible
		if fc.Roots == 1 || rapid.IntRange(0, 2).Draw(t, "allFaulty") == 0 {
			for i := 0; i < fc.Roots; i++ {
				fc.Faulty = append(fc.Faulty, i)
			}
		} else {
			n := rapid.IntRange(1, fc.Roots-1).Draw(t, "nFaulty")
			start := rapid.IntRange(0, fc.Roots-1).Draw(t, "firstFaulty")
			for i := 0; i < n; i++ {
				fc.Faulty = append(fc.Faulty, (start+i)%fc.Roots)
			}
		}
		switch rapid.IntRange(0, 4).Draw(t, "freeKind") {
		case 0: // real free space (equal for all roots of the sandbox)
		case 1, 2: // the continuation case: every healthy root reports more free space than every failing one
			isFaulty := map[int]bool{}
			for _, i := range fc.Faulty {
				isFaulty[i] = true
			}
			for i := 0; i < fc.Roots; i++ {
				if isFaulty[i] {
					fc.Free = append(fc.Free, rapid.SampledFrom([]uint64{1 << 20, 1 << 30}).Draw(t, "freeFaulty"))
				} else {
					fc.Free = append(fc.Free, rapid.SampledFrom([]uint64{1 << 31, 1 << 40}).Draw(t, "freeHealthy"))
				}
			}
		default:
			for i := 0; i < fc.Roots; i++ {
				fc.Free = append(fc.Free, rapid.SampledFrom([]uint64{1 << 20, 1 << 30, 1 << 30, 1 << 40, 5 << 30}).Draw(t, "free"))
			}
		}
	}
	if fc.Client == "inline-reader" || fc.Client == "ext-reader" || fc.Client == "inline-create" || fc.Client == "ext-create" {
		fc.Split = rapid.SliceOfN(rapid.SampledFrom([]int{0, 1, 100, 2047, 2048, 2049, 32768, 50000}), 0, 3).Draw(t, "split")
	}
	return fc
}

func TestC10(t *testing.T) { ev.Check(t, "C10", "faults", genC10, ExecC10) }
