package detsync

// Locker mirrors sync.Locker.
type Locker interface {
	Lock()
	Unlock()
}

// Mutex mirrors sync.Mutex.
type Mutex struct {
	held  bool
	owner int
}

func (m *Mutex) Lock() {
	block("lock", "a mutex", func() bool { return !m.held })
	m.held = true
	m.owner = S.cur.ID
}

func (m *Mutex) TryLock() bool {
	Yield("trylock")
	if m.held {
		return false
	}
	m.held = true
	m.owner = S.cur.ID
	return true
}

func (m *Mutex) Unlock() {
	if !m.held {
		panic("sync: unlock of unlocked mutex") // the runtime makes this fatal
	}
	m.held = false
	Yield("unlock")
}

func (m *Mutex) unlockQuiet() {
	if !m.held {
		panic("sync: unlock of unlocked mutex")
	}
	m.held = false
}

// RWMutex mirrors sync.RWMutex, including writer preference: a waiting writer blocks new readers.
type RWMutex struct {
	writer         bool
	readers        int
	writersWaiting int
}

func (m *RWMutex) Lock() {
	// scheduling point before the writer announces itself (the announcement already blocks new readers)
	Yield("wlock-enter")
	m.writersWaiting++
	block("wlock", "a write lock", func() bool { return !m.writer && m.readers == 0 })
	m.writersWaiting--
	m.writer = true
}

func (m *RWMutex) Unlock() {
	if !m.writer {
		panic("sync: Unlock of unlocked RWMutex")
	}
	m.writer = false
	Yield("wunlock")
}

func (m *RWMutex) RLock() {
	block("rlock", "a read lock", func() bool { return !m.writer && m.writersWaiting == 0 })
	m.readers++
}

func (m *RWMutex) RUnlock() {
	if m.readers <= 0 {
		panic("sync: RUnlock of unlocked RWMutex")
	}
	m.readers--
	Yield("runlock")
}

func (m *RWMutex) TryLock() bool {
	Yield("trywlock")
	if m.writer || m.readers > 0 {
		return false
	}
	m.writer = true
	return true
}

func (m *RWMutex) TryRLock() bool {
	Yield("tryrlock")
	if m.writer || m.writersWaiting > 0 {
		return false
	}
	m.readers++
	return true
}

// RLocker mirrors (*sync.RWMutex).RLocker.
func (m *RWMutex) RLocker() Locker { return rlocker{m} }

type rlocker struct{ m *RWMutex }

func (r rlocker) Lock()   { r.m.RLock() }
func (r rlocker) Unlock() { r.m.RUnlock() }

// Cond mirrors sync.Cond: no spurious wake-ups, Wait releases L and enqueues atomically.
type Cond struct {
	L       Locker
	waiters []*condWaiter
}

type condWaiter struct{ signalled bool }

func NewCond(l Locker) *Cond { return &Cond{L: l} }

func (c *Cond) Wait() {
	// a scheduling point before the waiter is enqueued: between the caller's last check and the
	// enqueue another goroutine may run (and signal into the void)
	Yield("cond-wait-enter")
	w := &condWaiter{}
	c.waiters = append(c.waiters, w)
	// release the lock without a scheduling point in between: enqueue+unlock is atomic in sync.Cond
	switch l := c.L.(type) {
	case *Mutex:
		l.unlockQuiet()
	case *RWMutex:
		if !l.writer {
			panic("sync: Unlock of unlocked RWMutex")
		}
		l.writer = false
	default:
		c.L.Unlock()
	}
	block("cond-wait", "a condition variable", func() bool { return w.signalled })
	c.L.Lock()
}

func (c *Cond) Signal() {
	Yield("cond-signal")
	if len(c.waiters) > 0 {
		c.waiters[0].signalled = true
		c.waiters = c.waiters[1:]
	}
}

func (c *Cond) Broadcast() {
	Yield("cond-broadcast")
	for _, w := range c.waiters {
		w.signalled = true
	}
	c.waiters = nil
}

// WaitGroup mirrors sync.WaitGroup.
type WaitGroup struct {
	n int
}

func (wg *WaitGroup) Add(delta int) {
	Yield("wg-add")
	wg.n += delta
	if wg.n < 0 {
		panic("sync: negative WaitGroup counter")
	}
}

func (wg *WaitGroup) Done() { wg.Add(-1) }

func (wg *WaitGroup) Wait() {
	block("wg-wait", "a WaitGroup", func() bool { return wg.n == 0 })
}

// Once mirrors sync.Once.
type Once struct {
	m    Mutex
	done bool
}

func (o *Once) Do(f func()) {
	o.m.Lock()
	defer o.m.Unlock()
	if !o.done {
		o.done = true
		f()
	}
}
