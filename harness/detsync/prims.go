package detsync

// Locker mirrors sync.Locker.
type Locker interface {
	Lock()
	Unlock()
}

// Mutex mirrors sync.Mutex.
type Mutex struct {
	held  bool
	owner int
}

func (m *Mutex) Lock() {
	block("lock", "a mutex", func() bool { return !m.held })
	m.held = true
	m.owner = S.cur.ID
}

func (m *Mutex) TryLock() bool {
	Yield("trylock")
	if m.held {
		return false
	}
	m.held = true
	m.owner = S.cur.ID
	return true
}

func (m *Mutex) Unlock() {
	if !m.held {
		panic("sync: unlock of unlocked mutex") // the runtime makes this fatal
	}
	m.held = false
	Yield("unlock")
}

func (m *Mutex) unlockQuiet() {
	if !m.held {
		panic("sync: unlock of unlocked mutex")
	}
	m.held = false
}

// RWMutex mirrors sync.RWMutex as implemented by the Go runtime: writers are serialised by an inner
// mutex; the writer that holds it announces itself (from then on new readers block) and waits for
// the active readers to leave; when it unlocks, ALL readers that blocked behind it are admitted
// before the next writer can announce itself. (So a reader queued behind writer A runs before a
// writer B that queued behind A as well - which matters for what such a reader can observe.)
type RWMutex struct {
	wHeld     bool // inner writer mutex
	announced bool // the writer holding the inner mutex has announced itself
	readers   int  // active readers
	waiting   []*rwWaiter
}

type rwWaiter struct{ released bool }

func (m *RWMutex) Lock() {
	// scheduling point, then take the inner mutex and announce (one atomic step: a reader arriving in
	// between is equivalent to one arriving just before)
	block("wlock", "a write lock (other writer)", func() bool { return !m.wHeld })
	m.wHeld = true
	m.announced = true
	block("wlock-readers", "a write lock (active readers)", func() bool { return m.readers == 0 })
}

func (m *RWMutex) Unlock() {
	if !m.wHeld || !m.announced {
		panic("sync: Unlock of unlocked RWMutex")
	}
	m.announced = false
	for _, w := range m.waiting { // readers that blocked behind this writer go first
		w.released = true
		m.readers++
	}
	m.waiting = nil
	m.wHeld = false
	Yield("wunlock")
}

func (m *RWMutex) RLock() {
	Yield("rlock")
	if !m.announced {
		m.readers++
		return
	}
	w := &rwWaiter{}
	m.waiting = append(m.waiting, w)
	block("rlock-wait", "a read lock", func() bool { return w.released })
}

func (m *RWMutex) RUnlock() {
	if m.readers <= 0 {
		panic("sync: RUnlock of unlocked RWMutex")
	}
	m.readers--
	Yield("runlock")
}

func (m *RWMutex) TryLock() bool {
	Yield("trywlock")
	if m.wHeld || m.readers > 0 {
		return false
	}
	m.wHeld, m.announced = true, true
	return true
}

func (m *RWMutex) TryRLock() bool {
	Yield("tryrlock")
	if m.announced {
		return false
	}
	m.readers++
	return true
}

// RLocker mirrors (*sync.RWMutex).RLocker.
func (m *RWMutex) RLocker() Locker { return rlocker{m} }

type rlocker struct{ m *RWMutex }

func (r rlocker) Lock()   { r.m.RLock() }
func (r rlocker) Unlock() { r.m.RUnlock() }

// Cond mirrors sync.Cond: no spurious wake-ups, Wait releases L and enqueues atomically.
type Cond struct {
	L       Locker
	waiters []*condWaiter
}

type condWaiter struct{ signalled bool }

func NewCond(l Locker) *Cond { return &Cond{L: l} }

func (c *Cond) Wait() {
	// a scheduling point before the waiter is enqueued: between the caller's last check and the
	// enqueue another goroutine may run (and signal into the void)
	Yield("cond-wait-enter")
	w := &condWaiter{}
	c.waiters = append(c.waiters, w)
	// release the lock without a scheduling point in between: enqueue+unlock is atomic in sync.Cond
	switch l := c.L.(type) {
	case *Mutex:
		l.unlockQuiet()
	case *RWMutex:
		if !l.wHeld || !l.announced {
			panic("sync: Unlock of unlocked RWMutex")
		}
		l.announced = false
		for _, rw := range l.waiting {
			rw.released = true
			l.readers++
		}
		l.waiting = nil
		l.wHeld = false
	default:
		c.L.Unlock()
	}
	block("cond-wait", "a condition variable", func() bool { return w.signalled })
	c.L.Lock()
}

func (c *Cond) Signal() {
	Yield("cond-signal")
	if len(c.waiters) > 0 {
		c.waiters[0].signalled = true
		c.waiters = c.waiters[1:]
	}
}

func (c *Cond) Broadcast() {
	Yield("cond-broadcast")
	for _, w := range c.waiters {
		w.signalled = true
	}
	c.waiters = nil
}

// WaitGroup mirrors sync.WaitGroup, including the two misuse panics of the runtime: a negative
// counter, and a counter that is raised again after a blocked Wait was released but before it
// returned ("WaitGroup is reused before previous Wait has returned").
type WaitGroup struct {
	n       int
	waiters []*wgWaiter
}

type wgWaiter struct{ released bool }

func (wg *WaitGroup) Add(delta int) {
	Yield("wg-add")
	wg.n += delta
	if wg.n < 0 {
		panic("sync: negative WaitGroup counter")
	}
	if wg.n == 0 {
		for _, w := range wg.waiters {
			w.released = true
		}
		wg.waiters = nil
	}
}

func (wg *WaitGroup) Done() { wg.Add(-1) }

func (wg *WaitGroup) Wait() {
	Yield("wg-wait")
	if wg.n == 0 {
		return
	}
	w := &wgWaiter{}
	wg.waiters = append(wg.waiters, w)
	block("wg-wait", "a WaitGroup", func() bool { return w.released })
	if wg.n != 0 {
		panic("sync: WaitGroup is reused before previous Wait has returned")
	}
}

// Once mirrors sync.Once.
type Once struct {
	m    Mutex
	done bool
}

func (o *Once) Do(f func()) {
	o.m.Lock()
	defer o.m.Unlock()
	if !o.done {
		o.done = true
		f()
	}
}

// Pool mirrors sync.Pool (so that code under test that pools buffers still builds under the owned
// scheduler). One managed goroutine runs at a time, so no locking is needed; Get returns the most
// recently Put item - the behaviour of sync.Pool on a single P, and the one that makes a pooled item
// still referenced elsewhere show up deterministically.
type Pool struct {
	New   func() any
	items []any
}

func (p *Pool) Get() any {
	Yield("pool-get")
	if n := len(p.items); n > 0 {
		x := p.items[n-1]
		p.items = p.items[:n-1]
		return x
	}
	if p.New != nil {
		return p.New()
	}
	return nil
}

func (p *Pool) Put(x any) {
	if x == nil {
		return
	}
	Yield("pool-put")
	p.items = append(p.items, x)
}

// Map mirrors sync.Map on top of a managed mutex.
type Map struct {
	mu Mutex
	m  map[any]any
}

func (m *Map) Load(key any) (any, bool) {
	m.mu.Lock()
	defer m.mu.Unlock()
	v, ok := m.m[key]
	return v, ok
}

func (m *Map) Store(key, value any) {
	m.mu.Lock()
	defer m.mu.Unlock()
	if m.m == nil {
		m.m = map[any]any{}
	}
	m.m[key] = value
}

func (m *Map) LoadOrStore(key, value any) (any, bool) {
	m.mu.Lock()
	defer m.mu.Unlock()
	if v, ok := m.m[key]; ok {
		return v, true
	}
	if m.m == nil {
		m.m = map[any]any{}
	}
	m.m[key] = value
	return value, false
}

func (m *Map) LoadAndDelete(key any) (any, bool) {
	m.mu.Lock()
	defer m.mu.Unlock()
	v, ok := m.m[key]
	delete(m.m, key)
	return v, ok
}

func (m *Map) Delete(key any) { m.LoadAndDelete(key) }

func (m *Map) Range(f func(key, value any) bool) {
	m.mu.Lock()
	type kv struct{ k, v any }
	var all []kv
	for k, v := range m.m {
		all = append(all, kv{k, v})
	}
	m.mu.Unlock()
	for _, e := range all {
		if !f(e.k, e.v) {
			return
		}
	}
}

// OnceFunc, OnceValue mirror the sync helpers.
func OnceFunc(f func()) func() {
	var o Once
	return func() { o.Do(f) }
}

func OnceValue[T any](f func() T) func() T {
	var o Once
	var v T
	return func() T {
		o.Do(func() { v = f() })
		return v
	}
}

func (m *Map) Swap(key, value any) (previous any, loaded bool) {
	m.mu.Lock()
	defer m.mu.Unlock()
	previous, loaded = m.m[key]
	if m.m == nil {
		m.m = map[any]any{}
	}
	m.m[key] = value
	return previous, loaded
}

func (m *Map) CompareAndSwap(key, old, new any) bool {
	m.mu.Lock()
	defer m.mu.Unlock()
	if v, ok := m.m[key]; ok && v == old {
		m.m[key] = new
		return true
	}
	return false
}

func (m *Map) CompareAndDelete(key, old any) bool {
	m.mu.Lock()
	defer m.mu.Unlock()
	if v, ok := m.m[key]; ok && v == old {
		delete(m.m, key)
		return true
	}
	return false
}

func (m *Map) Clear() {
	m.mu.Lock()
	defer m.mu.Unlock()
	clear(m.m)
}

func OnceValues[T1, T2 any](f func() (T1, T2)) func() (T1, T2) {
	var o Once
	var v1 T1
	var v2 T2
	return func() (T1, T2) {
		o.Do(func() { v1, v2 = f() })
		return v1, v2
	}
}
