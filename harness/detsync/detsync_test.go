package detsync

import (
	"testing"
	"time"
)

// The scheduler's own self-tests: tiny known-racy programs whose set of outcomes is known.

func allSingle(t *testing.T, prog func(), check func(o Outcome, at, c int)) int {
	cnt := &Counting{Inner: Default{}}
	o := Run(Config{Policy: cnt}, prog)
	check(o, -1, 0)
	runs := 1
	for k := 0; k < o.Steps; k++ {
		n := 1
		if k < len(cnt.N) {
			n = cnt.N[k]
		}
		for c := 0; c < n-1 || c == 0; c++ {
			o := Run(Config{Policy: Preempt{At: map[int]int{k: c}}}, prog)
			check(o, k, c)
			runs++
		}
	}
	return runs
}

func TestLostUpdateFound(t *testing.T) {
	// two goroutines do x = x + 1 with the read and the write under separate critical sections
	lost := 0
	var x int
	prog := func() {
		x = 0
		var m Mutex
		var wg WaitGroup
		for i := 0; i < 2; i++ {
			wg.Add(1)
			Go(func() {
				m.Lock()
				v := x
				m.Unlock()
				m.Lock()
				x = v + 1
				m.Unlock()
				wg.Done()
			})
		}
		wg.Wait()
	}
	runs := allSingle(t, prog, func(o Outcome, at, c int) {
		if o.Deadlock || o.Panic != "" || o.TimedOut {
			t.Fatalf("unexpected outcome %+v at %d/%d", o, at, c)
		}
		if x == 1 {
			lost++
		}
	})
	if lost == 0 {
		t.Fatalf("no single preemption exposed the lost update in %d runs", runs)
	}
	t.Logf("%d runs, %d with a lost update", runs, lost)
}

func TestNoFalseLostUpdate(t *testing.T) {
	var x int
	prog := func() {
		x = 0
		var m Mutex
		var wg WaitGroup
		for i := 0; i < 3; i++ {
			wg.Add(1)
			Go(func() {
				m.Lock()
				x = x + 1
				m.Unlock()
				wg.Done()
			})
		}
		wg.Wait()
	}
	allSingle(t, prog, func(o Outcome, at, c int) {
		if o.Deadlock || o.Panic != "" || o.TimedOut || x != 3 {
			t.Fatalf("correct program misbehaved: x=%d %+v at %d/%d", x, o, at, c)
		}
	})
}

func TestDeadlockDetected(t *testing.T) {
	found := 0
	prog := func() {
		var a, b Mutex
		var wg WaitGroup
		wg.Add(2)
		Go(func() { a.Lock(); b.Lock(); b.Unlock(); a.Unlock(); wg.Done() })
		Go(func() { b.Lock(); a.Lock(); a.Unlock(); b.Unlock(); wg.Done() })
		wg.Wait()
	}
	allSingle(t, prog, func(o Outcome, at, c int) {
		if o.Deadlock {
			found++
		}
	})
	if found == 0 {
		t.Fatal("lock-order inversion never deadlocked under single preemptions")
	}
}

func TestRWMutexWriterPreference(t *testing.T) {
	// recursive read lock with a writer arriving in between deadlocks (as with sync.RWMutex)
	found := 0
	prog := func() {
		var m RWMutex
		var wg WaitGroup
		wg.Add(2)
		Go(func() { m.RLock(); m.RLock(); m.RUnlock(); m.RUnlock(); wg.Done() })
		Go(func() { m.Lock(); m.Unlock(); wg.Done() })
		wg.Wait()
	}
	allSingle(t, prog, func(o Outcome, at, c int) {
		if o.Deadlock {
			found++
		}
	})
	if found == 0 {
		t.Fatal("recursive read lock vs writer never deadlocked")
	}
}

func TestCondNoLostWakeupWhenCorrect(t *testing.T) {
	prog := func() {
		var m Mutex
		c := NewCond(&m)
		ready := false
		var wg WaitGroup
		wg.Add(2)
		Go(func() {
			m.Lock()
			for !ready {
				c.Wait()
			}
			m.Unlock()
			wg.Done()
		})
		Go(func() {
			m.Lock()
			ready = true
			m.Unlock()
			c.Signal()
			wg.Done()
		})
		wg.Wait()
	}
	allSingle(t, prog, func(o Outcome, at, c int) {
		if o.Deadlock || o.Panic != "" || o.TimedOut {
			t.Fatalf("correct condition-variable program misbehaved: %+v at %d/%d", o, at, c)
		}
	})
}

func TestSelectAndTimers(t *testing.T) {
	// a consumer polling a channel and a producer; plus a select that can only complete by its timer
	prog := func() {
		ch := make(chan int, 1)
		got := 0
		var wg WaitGroup
		wg.Add(2)
		Go(func() {
			sel := NewSelect(1)
		L:
			switch sel.Next() {
			case 0:
				select {
				case v := <-ch:
					sel.Hit()
					got = v
				default:
					goto L
				}
			}
			wg.Done()
		})
		Go(func() {
			c := After(time.Millisecond)
			sel := NewSelect(1)
		L:
			switch sel.Next() {
			case 0:
				select {
				case <-c:
					sel.Hit()
				default:
					goto L
				}
			}
			ch <- 7
			Yield("sent")
			wg.Done()
		})
		wg.Wait()
		if got != 7 {
			panic("consumer did not receive")
		}
	}
	allSingle(t, prog, func(o Outcome, at, c int) {
		if o.Deadlock || o.Panic != "" || o.TimedOut {
			t.Fatalf("select/timer program misbehaved: %+v at %d/%d\n%v", o, at, c, o.Trace)
		}
	})
}

func TestTapeRandomWalk(t *testing.T) {
	// random tapes must never produce a bogus verdict on a correct program
	for seed := 0; seed < 300; seed++ {
		b := make([]byte, 200)
		x := uint32(seed*2654435761 + 1)
		for i := range b {
			x = x*1664525 + 1013904223
			b[i] = byte(x >> 24)
		}
		sum := 0
		o := Run(Config{Policy: &Tape{B: b, Threshold: 64}}, func() {
			var m Mutex
			var wg WaitGroup
			for i := 0; i < 4; i++ {
				wg.Add(1)
				Go(func() {
					for j := 0; j < 3; j++ {
						m.Lock()
						sum++
						m.Unlock()
					}
					wg.Done()
				})
			}
			wg.Wait()
		})
		if o.Deadlock || o.Panic != "" || o.TimedOut || sum != 12 {
			t.Fatalf("seed %d: %+v sum=%d", seed, o, sum)
		}
	}
}

func TestRWMutexQueuedReadersBeforeNextWriter(t *testing.T) {
	// writer A holds the lock; reader R and writer B queue behind it; when A unlocks R must be
	// admitted before B (as with sync.RWMutex), so R observes x == 1, never B's 2.
	sawTwo, sawOne := 0, 0
	prog := func() {
		var m RWMutex
		x := 0
		seen := -1
		var wg WaitGroup
		wg.Add(3)
		aHolds, rQueued := false, false
		Go(func() { // A
			m.Lock()
			aHolds = true
			x = 1
			// keep the lock until R is queued behind us
			block("wait", "R queued", func() bool { return rQueued && len(m.waiting) > 0 })
			Yield("hold")
			m.Unlock()
			wg.Done()
		})
		Go(func() { // R
			block("wait", "A holds", func() bool { return aHolds })
			rQueued = true
			m.RLock()
			seen = x
			m.RUnlock()
			wg.Done()
		})
		Go(func() { // B
			block("wait", "A holds", func() bool { return aHolds })
			m.Lock()
			x = 2
			m.Unlock()
			wg.Done()
		})
		wg.Wait()
		if seen == 2 {
			sawTwo++
		}
		if seen == 1 {
			sawOne++
		}
	}
	allSingle(t, prog, func(o Outcome, at, c int) {
		if o.Deadlock || o.Panic != "" || o.TimedOut || o.StepLimit {
			t.Fatalf("unexpected outcome %+v at %d/%d", o, at, c)
		}
	})
	if sawOne == 0 {
		t.Fatal("reader never ran between the two writers")
	}
	t.Logf("reader saw 1 in %d schedules, 2 in %d (possible only if it queued after B had announced)", sawOne, sawTwo)
}

func TestManagedTimers(t *testing.T) {
	// NewTimer/Stop/Reset, Ticker, AfterFunc (fired and stopped) and Sleep under every single forced switch
	var fired, ticks, funcs, stopped int
	prog := func() {
		fired, ticks, funcs, stopped = 0, 0, 0, 0
		var wg WaitGroup
		wg.Add(3)
		Go(func() { // a timer that fires, and one that is stopped and reset
			defer wg.Done()
			tm := NewTimer(time.Millisecond)
			if wait2(tm.C, nil) == 0 {
				fired++
			}
			tm2 := NewTimer(time.Hour)
			if tm2.Stop() {
				stopped++
			}
			tm2.Reset(time.Millisecond)
			wait2(tm2.C, nil)
			fired++
		})
		Go(func() { // three ticks, then stop
			defer wg.Done()
			tk := NewTicker(time.Millisecond)
			for i := 0; i < 3; i++ {
				wait2(tk.C, nil)
				ticks++
			}
			tk.Stop()
		})
		Go(func() {
			defer wg.Done()
			var inner WaitGroup
			inner.Add(1)
			AfterFunc(time.Millisecond, func() { funcs++; inner.Done() })
			never := AfterFunc(time.Hour, func() { funcs += 100 })
			Sleep(2 * time.Millisecond)
			if never.Stop() {
				stopped++
			}
			inner.Wait()
		})
		wg.Wait()
	}
	allSingle(t, prog, func(o Outcome, at, c int) {
		if o.Deadlock || o.Panic != "" || o.TimedOut || fired != 2 || ticks != 3 || (funcs != 1 && funcs != 101) || stopped > 2 {
			// (a forced choice may fire ANY pending timer, also the one-hour one before the 2 ms sleep is over:
			// virtual time over-approximates real time, relative deadlines are not kept)
			t.Fatalf("timer program misbehaved: %+v at %d/%d fired=%d ticks=%d funcs=%d stopped=%d\n%v", o, at, c, fired, ticks, funcs, stopped, o.Trace)
		}
	})
}

func TestRecvHelpers(t *testing.T) {
	prog := func() {
		ch := make(chan int, 1)
		done := make(chan struct{})
		var wg WaitGroup
		wg.Add(2)
		got, closed := 0, false
		Go(func() {
			defer wg.Done()
			got = Recv[int](ch) + Recv[int](ch)
			_, ok := Recv2[struct{}](done)
			closed = !ok
		})
		Go(func() {
			defer wg.Done()
			for i := 1; i <= 2; i++ {
				sel := NewSelect(1)
			L:
				switch sel.Next() {
				case 0:
					select {
					case ch <- i:
						sel.Hit()
					default:
						goto L
					}
				}
			}
			Close(done)
		})
		wg.Wait()
		if got != 3 || !closed {
			panic("Recv helpers misbehaved")
		}
	}
	allSingle(t, prog, func(o Outcome, at, c int) {
		if o.Deadlock || o.Panic != "" || o.TimedOut {
			t.Fatalf("receive helpers: %+v at %d/%d\n%v", o, at, c, o.Trace)
		}
	})
}
