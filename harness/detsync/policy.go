package detsync

// Preempt is the default policy plus a list of forced context switches: at scheduling point k
// switch to the c-th other candidate (timers included). Used for small-scope exhaustive
// enumeration and as the shrink-friendly schedule representation.
type Preempt struct {
	At map[int]int
}

func (p Preempt) Choose(step int, cands []Choice, cur int) int {
	c, ok := p.At[step]
	if !ok {
		return Default{}.Choose(step, cands, cur)
	}
	return pickOther(cands, cur, c)
}

// pickOther returns the index of the c-th candidate other than cur, counting working goroutines
// first, then goroutines parked in a select (idle workers), then timers - so that small choice
// numbers address the actors that matter.
func pickOther(cands []Choice, cur int, c int) int {
	if c < 0 {
		c = -c
	}
	var order []int
	for pass := 0; pass < 3; pass++ {
		for i, cd := range cands {
			if i == cur {
				continue
			}
			k := 0
			if cd.Timer {
				k = 2
			} else if cd.Poller {
				k = 1
			}
			if k == pass {
				order = append(order, i)
			}
		}
	}
	if len(order) == 0 {
		return cur
	}
	return order[c%len(order)]
}

func (p Preempt) Order(step, n int) []int { return Default{}.Order(step, n) }

// Tape is a random-walk policy driven by a byte string: one byte per scheduling point; a byte
// below Threshold forces a switch to candidate (next byte mod n), timers included. When the tape
// is exhausted the default policy applies.
type Tape struct {
	B         []byte
	Threshold byte
	pos       int
}

func (t *Tape) next() (byte, bool) {
	if t.pos >= len(t.B) {
		return 0, false
	}
	b := t.B[t.pos]
	t.pos++
	return b, true
}

func (t *Tape) Choose(step int, cands []Choice, cur int) int {
	b, ok := t.next()
	if !ok || b >= t.Threshold {
		return Default{}.Choose(step, cands, cur)
	}
	c, _ := t.next()
	return pickOther(cands, cur, int(c))
}

func (t *Tape) Order(step, n int) []int {
	o := Default{}.Order(step, n)
	b, ok := t.next()
	if !ok || b >= t.Threshold || n < 2 {
		return o
	}
	r, _ := t.next()
	k := int(r) % n
	return append(o[k:], o[:k]...)
}

// Counting wraps a policy and records the number of candidates at each step (used to learn the
// size of the single-preemption space of a program).
type Counting struct {
	Inner Policy
	N     []int // all candidates (working goroutines, parked pollers, timers)
	NW    []int // working goroutines only (forced choices 0..NW-2 address exactly those)
}

func (c *Counting) Choose(step int, cands []Choice, cur int) int {
	for len(c.N) <= step {
		c.N = append(c.N, 0)
		c.NW = append(c.NW, 0)
	}
	c.N[step] = len(cands)
	nw := 0
	for i, cd := range cands {
		if i == cur || (!cd.Timer && !cd.Poller) {
			nw++
		}
	}
	c.NW[step] = nw
	return c.Inner.Choose(step, cands, cur)
}

func (c *Counting) Order(step, n int) []int { return c.Inner.Order(step, n) }
