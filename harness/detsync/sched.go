// Package detsync is a cooperative, schedule-owning replacement for the subset of sync,
// sync/atomic, goroutine creation, channel selects and timers that fs_db uses. The source
// rewriter (tools/rewrite) points fs_db's imports here for engine E4; exactly one managed
// goroutine runs at a time and every managed operation is a scheduling point whose outcome is
// decided by a Policy - i.e. the schedule is an input of the test.
package detsync

import (
	"fmt"
	"runtime/debug"
	"strings"
	"time"
)

// G is a managed goroutine.
type G struct {
	ID         int
	Name       string
	wake       chan struct{}
	done       bool
	blocked    func() bool // nil: runnable; otherwise it may proceed once this returns true
	why        string
	poller     bool // blocked in a select round (re-polls when anything changed)
	idleWaiter bool
	timers     []*timer
}

type timer struct {
	at        time.Duration
	ch        chan time.Time
	fired     bool
	cancelled bool
	owner     *G
	period    time.Duration // > 0: a ticker, re-armed every time it fires
	listed    bool          // in Sched.timers
}

// Choice is what a policy may pick at a scheduling point: a goroutine or a pending timer.
type Choice struct {
	G      *G
	Timer  bool
	Poller bool // a goroutine parked in a select round (idle worker, timer loop ...)
	tm     *timer
}

// Policy decides every scheduling point.
type Policy interface {
	// Choose picks one of cands (never empty). cur is the index of the goroutine that reached the
	// scheduling point if it may continue, else -1. step is the number of this scheduling point.
	Choose(step int, cands []Choice, cur int) int
	// Order returns the order in which the n cases of a select are tried in one polling round.
	Order(step int, n int) []int
}

// Outcome describes one episode.
type Outcome struct {
	Steps     int
	Deadlock  bool
	Waiting   []string // who waits for what (deadlock / leaked goroutines)
	Panic     string
	StepLimit bool
	TimedOut  bool
	Leaked    int
	Trace     []string
}

type traceEnt struct {
	step int
	g    int
	kind string
}

// Sched is the scheduler of one episode.
type Sched struct {
	graceSpent int // polling rounds granted to unmanaged helpers since the last real progress
	gs         []*G
	cur        *G
	body       *G
	steps      int
	changes    int64
	timers     []*timer
	now        time.Duration
	policy     Policy
	finished   chan struct{}
	out        Outcome
	ended      bool
	maxSteps   int
	idleFires  int
	trace      []traceEnt
	traceOn    bool
	// OnStep, when set, is called (by the goroutine holding the turn) at every scheduling point.
	nextID int
	lastID int
}

// S is the active scheduler (nil outside Run).
var S *Sched

// Config configures an episode.
type Config struct {
	Policy   Policy
	MaxSteps int           // 0 = 400000
	Timeout  time.Duration // real-time watchdog, 0 = 20 s
	Trace    bool
}

// Run executes body as managed goroutine 0 under cfg.Policy and returns when the episode is over:
// every managed goroutine finished, or body finished and nothing else can run (leaked goroutines
// are reported), or nothing can run while body is unfinished (deadlock), or a managed goroutine
// panicked, or a limit was hit.
func Run(cfg Config, body func()) Outcome {
	if S != nil {
		panic("detsync: nested Run")
	}
	s := &Sched{policy: cfg.Policy, finished: make(chan struct{}), maxSteps: cfg.MaxSteps, traceOn: cfg.Trace}
	if s.maxSteps == 0 {
		s.maxSteps = 400000
	}
	if s.policy == nil {
		s.policy = Default{}
	}
	S = s
	g := s.newG("body")
	s.body = g
	s.cur = g
	go s.wrap(g, body)
	g.wake <- struct{}{}
	to := cfg.Timeout
	if to == 0 {
		to = 60 * time.Second // (20 s was hit once by a 30-step episode on a machine with three heavy jobs running: exit 2, not a verdict)
	}
	select {
	case <-s.finished:
	case <-time.After(to):
		s.out.TimedOut = true
		s.out.Waiting = s.describe()
	}
	S = nil
	s.out.Steps = s.steps
	if s.traceOn || s.out.Deadlock || s.out.Panic != "" {
		s.out.Trace = s.formatTrace()
	}
	return s.out
}

func (s *Sched) newG(name string) *G {
	g := &G{ID: s.nextID, Name: name, wake: make(chan struct{}, 1)}
	s.nextID++
	s.gs = append(s.gs, g)
	return g
}

func (s *Sched) wrap(g *G, f func()) {
	<-g.wake
	defer func() {
		if p := recover(); p != nil {
			if _, ok := p.(episodeOver); ok {
				return
			}
			if !s.ended {
				s.out.Panic = fmt.Sprintf("goroutine %d (%s) panicked: %v\n%s", g.ID, g.Name, p, trimStack(string(debug.Stack())))
				s.end()
			}
			return
		}
		g.done = true
		s.bump()
		s.record(g, "exit")
		s.sched(g)
	}()
	f()
}

func trimStack(st string) string {
	lines := strings.Split(st, "\n")
	var out []string
	for i := 0; i < len(lines) && len(out) < 40; i++ {
		l := lines[i]
		if strings.Contains(l, "runtime/debug") || strings.Contains(l, "runtime/panic") {
			continue
		}
		out = append(out, l)
	}
	return strings.Join(out, "\n")
}

type episodeOver struct{}

func (s *Sched) end() {
	if !s.ended {
		s.ended = true
		close(s.finished)
		// let parked goroutines unwind instead of leaking them (they panic with episodeOver)
		for _, g := range s.gs {
			if !g.done && g != s.cur {
				select {
				case g.wake <- struct{}{}:
				default:
				}
			}
		}
	}
}

func (s *Sched) record(g *G, kind string) {
	if len(s.trace) < 20000 {
		s.trace = append(s.trace, traceEnt{s.steps, g.ID, kind})
	}
}

func (s *Sched) formatTrace() []string {
	var out []string
	start := 0
	if len(s.trace) > 400 {
		start = len(s.trace) - 400
	}
	names := map[int]string{}
	for _, g := range s.gs {
		names[g.ID] = g.Name
	}
	for _, e := range s.trace[start:] {
		out = append(out, fmt.Sprintf("%5d g%d(%s) %s", e.step, e.g, names[e.g], e.kind))
	}
	return out
}

func (s *Sched) describe() []string {
	var out []string
	for _, g := range s.gs {
		if g.done {
			continue
		}
		st := "runnable"
		if g.blocked != nil {
			st = "waits for " + g.why
		}
		out = append(out, fmt.Sprintf("g%d(%s): %s", g.ID, g.Name, st))
	}
	return out
}

func (s *Sched) candidates(self *G) (cands []Choice, cur int) {
	cur = -1
	for _, g := range s.gs {
		if g.done {
			continue
		}
		if g.blocked == nil || g.blocked() {
			if g == self {
				cur = len(cands)
			}
			cands = append(cands, Choice{G: g, Poller: g.poller})
		}
	}
	return cands, cur
}

func (s *Sched) pendingTimers() []*timer {
	out := s.timers[:0]
	for _, t := range s.timers {
		if !t.fired && !t.cancelled {
			out = append(out, t)
		} else {
			t.listed = false
		}
	}
	s.timers = out
	return out
}

func (s *Sched) fire(t *timer) {
	if t.at > s.now {
		s.now = t.at
	}
	if t.period > 0 {
		t.at = s.now + t.period // a ticker stays pending
	} else {
		t.fired = true
	}
	// like the runtime: a value nobody has taken yet is not overwritten and the send never blocks
	select {
	case t.ch <- time.Unix(0, 0).Add(s.now):
	default:
	}
	s.bump()
}

// bump records real progress of the episode (a managed operation happened).
func (s *Sched) bump() {
	s.changes++
	s.graceSpent = 0
}

func (s *Sched) arm(t *timer) {
	if !t.listed {
		t.listed = true
		s.timers = append(s.timers, t)
	}
}

// sched is called by the goroutine holding the turn (self) at every scheduling point; self.blocked
// says whether self may continue. It returns when self holds the turn again.
func (s *Sched) sched(self *G) {
	if s.ended {
		panic(episodeOver{})
	}
	grace := 0
	var firedHere map[*timer]bool // tickers fired at this scheduling point: not offered again before the next one
	for {
		cands, cur := s.candidates(self)
		tms := s.pendingTimers()
		if len(firedHere) > 0 {
			kept := make([]*timer, 0, len(tms))
			for _, t := range tms {
				if !firedHere[t] {
					kept = append(kept, t)
				}
			}
			tms = kept
		}
		if len(cands) == 0 {
			bodyDone := s.body.done
			if len(tms) > 0 && !bodyDone && s.idleFires < 64 {
				// everybody waits: virtual time advances to the earliest timer
				best := tms[0]
				for _, t := range tms {
					if t.at < best.at {
						best = t
					}
				}
				s.idleFires++
				s.fire(best)
				if best.period > 0 {
					if firedHere == nil {
						firedHere = map[*timer]bool{}
					}
					firedHere[best] = true
				}
				continue
			}
			if !bodyDone && grace < 40 && s.graceSpent < 2000 {
				// unmanaged helpers (context.AfterFunc callbacks) may still be on their way: goroutines parked in
				// a select are let poll again. The allowance is per episode and refilled by real progress only:
				// with pollers around (idle workers always are) a per-call allowance never ran out, and a client
				// waiting for a channel that nobody will ever serve ended as a real-time timeout instead of the
				// deadlock it is (seen with a seeded change that made Close wait on a channel).
				grace++
				s.graceSpent++
				time.Sleep(500 * time.Microsecond)
				s.changes++
				continue
			}
			all := true
			for _, g := range s.gs {
				if !g.done {
					all = false
					s.out.Leaked++
				}
			}
			if !bodyDone {
				s.out.Deadlock = true
				s.out.Leaked = 0
			}
			if !all {
				s.out.Waiting = s.describe()
			}
			s.end()
			if self.done {
				return
			}
			panic(episodeOver{})
		}
		if s.steps >= s.maxSteps {
			s.out.StepLimit = true
			s.out.Waiting = s.describe()
			s.end()
			if self.done {
				return
			}
			panic(episodeOver{})
		}
		all := cands
		for _, t := range tms {
			all = append(all, Choice{Timer: true, tm: t})
		}
		i := s.policy.Choose(s.steps, all, cur)
		if i < 0 || i >= len(all) {
			i = 0
		}
		if all[i].Timer {
			s.fire(all[i].tm)
			if all[i].tm.period > 0 {
				if firedHere == nil {
					firedHere = map[*timer]bool{}
				}
				firedHere[all[i].tm] = true
			}
			continue
		}
		s.steps++
		next := all[i].G
		s.lastID = next.ID
		if next == self {
			self.blocked = nil
			return
		}
		s.cur = next
		next.wake <- struct{}{}
		if self.done {
			return
		}
		<-self.wake
		if s.ended {
			panic(episodeOver{})
		}
		self.blocked = nil
		return
	}
}

func me() (*Sched, *G) {
	s := S
	if s == nil {
		panic("detsync: managed primitive used outside Run")
	}
	return s, s.cur
}

// Yield is a plain scheduling point (used by hook points and atomics).
func Yield(kind string) {
	s, g := me()
	s.bump()
	s.record(g, kind)
	s.sched(g)
}

// Active reports whether a scheduler is running.
func Active() bool { return S != nil }

// Steps returns the number of scheduling points passed so far (a logical clock for histories).
func Steps() int {
	if S == nil {
		return 0
	}
	return S.steps
}

// block parks the current goroutine until pred holds.
func block(kind, why string, pred func() bool) {
	s, g := me()
	s.bump()
	s.record(g, kind)
	// always park on the predicate: if another goroutine is scheduled first and invalidates it,
	// this goroutine must not resume before it holds again
	g.blocked = pred
	g.why = why
	s.sched(g)
}

// CurrentID returns the id of the managed goroutine that holds the turn (-1 outside Run).
func CurrentID() int {
	if S == nil || S.cur == nil {
		return -1
	}
	return S.cur.ID
}

// WaitIdle blocks the caller until no other managed goroutine can run and no timer is pending:
// the system is quiescent apart from the caller.
func WaitIdle() {
	s, g := me()
	block("wait-idle", "quiescence of all other goroutines", func() bool {
		for _, t := range s.timers {
			if !t.fired && !t.cancelled {
				return false
			}
		}
		for _, o := range s.gs {
			if o == g || o.done {
				continue
			}
			if o.blocked == nil || (!o.idleWaiter && o.blocked()) {
				return false
			}
		}
		return true
	})
}

// Go starts f as a managed goroutine.
func Go(f func()) {
	s, g := me()
	ng := s.newG(fmt.Sprintf("go@%d", s.steps))
	go s.wrap(ng, f)
	s.bump()
	s.record(g, "go")
	s.sched(g)
}

// GoNamed is Go with a name for reports.
func GoNamed(name string, f func()) {
	s, g := me()
	ng := s.newG(name)
	go s.wrap(ng, f)
	s.bump()
	s.record(g, "go "+name)
	s.sched(g)
}

// ---- timers and selects -------------------------------------------------------------------------

// After is the managed time.After: a virtual timer the scheduler fires when it decides to (or when
// everybody waits).
func After(d time.Duration) <-chan time.Time {
	s, g := me()
	t := &timer{at: s.now + d, ch: make(chan time.Time, 1), owner: g}
	s.arm(t)
	g.timers = append(g.timers, t)
	return t.ch
}

// Timer is the managed time.Timer: a virtual timer with an explicit life (Stop, Reset). Unlike the
// timers of After it is not cancelled when the select that waits for it completes.
type Timer struct {
	C      <-chan time.Time
	t      *timer
	stopCh chan struct{} // AfterFunc: closed by Stop
	isFunc bool
}

// NewTimer is the managed time.NewTimer.
func NewTimer(d time.Duration) *Timer {
	s, g := me()
	t := &timer{at: s.now + d, ch: make(chan time.Time, 1), owner: g}
	s.arm(t)
	s.bump()
	s.record(g, "timer-new")
	s.sched(g)
	return &Timer{C: t.ch, t: t}
}

// Stop prevents the timer from firing; it reports whether it stopped it.
func (tm *Timer) Stop() bool {
	s, g := me()
	active := !tm.t.fired && !tm.t.cancelled
	tm.t.cancelled = true
	if tm.isFunc && active {
		close(tm.stopCh)
	}
	s.bump()
	s.record(g, "timer-stop")
	s.sched(g)
	return active
}

// Reset re-arms the timer; it reports whether the timer had been active.
func (tm *Timer) Reset(d time.Duration) bool {
	s, g := me()
	if tm.isFunc {
		panic("detsync: Reset of an AfterFunc timer is not supported")
	}
	active := !tm.t.fired && !tm.t.cancelled
	tm.t.fired, tm.t.cancelled = false, false
	tm.t.at = s.now + d
	s.arm(tm.t)
	s.bump()
	s.record(g, "timer-reset")
	s.sched(g)
	return active
}

// Ticker is the managed time.Ticker.
type Ticker struct {
	C <-chan time.Time
	t *timer
}

// NewTicker is the managed time.NewTicker.
func NewTicker(d time.Duration) *Ticker {
	if d <= 0 {
		panic("non-positive interval for NewTicker")
	}
	s, g := me()
	t := &timer{at: s.now + d, ch: make(chan time.Time, 1), owner: g, period: d}
	s.arm(t)
	s.bump()
	s.record(g, "ticker-new")
	s.sched(g)
	return &Ticker{C: t.ch, t: t}
}

func (tk *Ticker) Stop() {
	s, g := me()
	tk.t.cancelled = true
	s.bump()
	s.record(g, "ticker-stop")
	s.sched(g)
}

func (tk *Ticker) Reset(d time.Duration) {
	s, g := me()
	tk.t.cancelled = false
	tk.t.period = d
	tk.t.at = s.now + d
	s.arm(tk.t)
	s.bump()
	s.record(g, "ticker-reset")
	s.sched(g)
}

// Tick is the managed time.Tick.
func Tick(d time.Duration) <-chan time.Time {
	if d <= 0 {
		return nil
	}
	return NewTicker(d).C
}

// wait1 blocks the caller (as a select with these cases would) until one of the channels is ready and
// returns its index.
func wait2(a <-chan time.Time, b <-chan struct{}) int {
	n := 1
	if b != nil {
		n = 2
	}
	sel := NewSelect(n)
	for {
		switch sel.Next() {
		case 0:
			select {
			case <-a:
				sel.Hit()
				return 0
			default:
			}
		case 1:
			select {
			case <-b:
				sel.Hit()
				return 1
			default:
			}
		}
	}
}

// Sleep is the managed time.Sleep: the caller waits for a virtual timer.
func Sleep(d time.Duration) {
	if d <= 0 {
		Yield("sleep")
		return
	}
	s, g := me()
	t := &timer{at: s.now + d, ch: make(chan time.Time, 1), owner: g}
	s.arm(t)
	wait2(t.ch, nil)
}

// AfterFunc is the managed time.AfterFunc: f runs in a managed goroutine of its own once the virtual
// timer fires, unless Stop came first.
func AfterFunc(d time.Duration, f func()) *Timer {
	s, g := me()
	t := &timer{at: s.now + d, ch: make(chan time.Time, 1), owner: g}
	s.arm(t)
	tm := &Timer{t: t, stopCh: make(chan struct{}), isFunc: true}
	GoNamed("afterfunc", func() {
		if wait2(t.ch, tm.stopCh) == 0 {
			f()
		}
	})
	return tm
}

// Select drives the polling form of a blocking select statement (see tools/rewrite).
type Select struct {
	n      int
	order  []int
	tried  int
	epoch  int64
	g      *G
	timers []*timer
}

// NewSelect begins a select with n cases. Timers created by this goroutine since its last
// select belong to it and are cancelled when the select completes.
func NewSelect(n int) *Select {
	s, g := me()
	sel := &Select{n: n, g: g, timers: g.timers}
	g.timers = nil
	sel.begin(s)
	return sel
}

func (sel *Select) begin(s *Sched) {
	sel.epoch = s.changes
	sel.tried = 0
	s.record(sel.g, "select-round")
	s.sched(sel.g) // one scheduling point per polling round; not a state change
	sel.order = s.policy.Order(s.steps, sel.n)
}

// Next returns the index of the next case to attempt without blocking.
func (sel *Select) Next() int {
	s, g := me()
	if sel.tried >= sel.n {
		epoch := sel.epoch
		if s.changes <= epoch {
			g.blocked = func() bool { return s.changes > epoch }
			g.why = "a ready select case"
			g.poller = true
			s.sched(g)
			g.poller = false
		}
		sel.begin(s)
	}
	i := sel.order[sel.tried]
	sel.tried++
	return i
}

// Hit reports that the case attempted last succeeded.
func (sel *Select) Hit() {
	s, g := me()
	s.bump()
	s.record(g, "select-hit")
	for _, t := range sel.timers {
		if !t.fired {
			t.cancelled = true
		}
	}
}

// Recv is the managed receive expression `<-ch` where it is part of a larger expression (see tools/rewrite).
func Recv[T any, C ~chan T | ~<-chan T](ch C) T {
	v, _ := Recv2[T](ch)
	return v
}

// Recv2 is the managed `v, ok := <-ch`.
func Recv2[T any, C ~chan T | ~<-chan T](ch C) (T, bool) {
	var rc <-chan T
	switch c := any(ch).(type) {
	case chan T:
		rc = c
	case <-chan T:
		rc = c
	default:
		panic("detsync: Recv on a named channel type is not supported")
	}
	sel := NewSelect(1)
	for {
		if sel.Next() == 0 {
			select {
			case v, ok := <-rc:
				sel.Hit()
				return v, ok
			default:
			}
		}
	}
}

// Close is the managed close(ch).
func Close[T any](ch chan T) {
	Yield("close")
	close(ch)
}

// ---- default policy -----------------------------------------------------------------------------

// Default keeps the current goroutine running while it can, otherwise the lowest-numbered enabled
// goroutine; it never fires a timer by choice.
type Default struct{}

func (Default) Choose(step int, cands []Choice, cur int) int {
	if cur >= 0 {
		return cur
	}
	// non-preemptive round robin: the next enabled goroutine after the one that ran last (so a
	// goroutine that was preempted is resumed only after the others had their turn)
	last := -1
	if S != nil {
		last = S.lastID
	}
	best := -1
	for i, c := range cands {
		if c.Timer {
			continue
		}
		if c.G.ID > last {
			return i
		}
		if best < 0 {
			best = i
		}
	}
	if best >= 0 {
		return best
	}
	return 0
}

func (Default) Order(step, n int) []int {
	o := make([]int, n)
	for i := range o {
		o[i] = i
	}
	return o
}
