// Package atomic is the managed replacement of sync/atomic for engine E4: every operation is a
// scheduling point, then the real atomic operation is performed.
package atomic

import (
	ra "sync/atomic"

	"github.com/glebziz/fs_db/internal/verifh/detsync"
)

func LoadUint64(p *uint64) uint64 { detsync.Yield("atomic-load"); return ra.LoadUint64(p) }
func StoreUint64(p *uint64, v uint64) {
	detsync.Yield("atomic-store")
	ra.StoreUint64(p, v)
}
func AddUint64(p *uint64, d uint64) uint64 { detsync.Yield("atomic-add"); return ra.AddUint64(p, d) }
func CompareAndSwapUint64(p *uint64, o, n uint64) bool {
	detsync.Yield("atomic-cas")
	return ra.CompareAndSwapUint64(p, o, n)
}
func LoadInt64(p *int64) int64 { detsync.Yield("atomic-load"); return ra.LoadInt64(p) }
func StoreInt64(p *int64, v int64) {
	detsync.Yield("atomic-store")
	ra.StoreInt64(p, v)
}
func AddInt64(p *int64, d int64) int64 { detsync.Yield("atomic-add"); return ra.AddInt64(p, d) }
func CompareAndSwapInt64(p *int64, o, n int64) bool {
	detsync.Yield("atomic-cas")
	return ra.CompareAndSwapInt64(p, o, n)
}
func LoadInt32(p *int32) int32 { detsync.Yield("atomic-load"); return ra.LoadInt32(p) }
func StoreInt32(p *int32, v int32) {
	detsync.Yield("atomic-store")
	ra.StoreInt32(p, v)
}
func AddInt32(p *int32, d int32) int32 { detsync.Yield("atomic-add"); return ra.AddInt32(p, d) }
func CompareAndSwapInt32(p *int32, o, n int32) bool {
	detsync.Yield("atomic-cas")
	return ra.CompareAndSwapInt32(p, o, n)
}

// Bool mirrors sync/atomic.Bool.
type Bool struct{ v ra.Bool }

func (b *Bool) Load() bool   { detsync.Yield("atomic-load"); return b.v.Load() }
func (b *Bool) Store(v bool) { detsync.Yield("atomic-store"); b.v.Store(v) }
func (b *Bool) Swap(v bool) bool {
	detsync.Yield("atomic-swap")
	return b.v.Swap(v)
}
func (b *Bool) CompareAndSwap(o, n bool) bool {
	detsync.Yield("atomic-cas")
	return b.v.CompareAndSwap(o, n)
}

// Int64 mirrors sync/atomic.Int64.
type Int64 struct{ v ra.Int64 }

func (i *Int64) Load() int64       { detsync.Yield("atomic-load"); return i.v.Load() }
func (i *Int64) Store(v int64)     { detsync.Yield("atomic-store"); i.v.Store(v) }
func (i *Int64) Add(d int64) int64 { detsync.Yield("atomic-add"); return i.v.Add(d) }

// Uint64 mirrors sync/atomic.Uint64.
type Uint64 struct{ v ra.Uint64 }

func (i *Uint64) Load() uint64        { detsync.Yield("atomic-load"); return i.v.Load() }
func (i *Uint64) Store(v uint64)      { detsync.Yield("atomic-store"); i.v.Store(v) }
func (i *Uint64) Add(d uint64) uint64 { detsync.Yield("atomic-add"); return i.v.Add(d) }
