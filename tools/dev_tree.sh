#!/bin/sh
# tools/dev_tree.sh <dir> [repo]: a development copy of the repository with the harness grafted in (not rewritten):
#   cd <dir> && go test -tags verif -vet=off -run X ./internal/verifh/seq
set -e
D=$1; R=${2:-/repo}
export GOFLAGS=-mod=mod GOPROXY=off GOSUMDB=off GOTOOLCHAIN=local
mkdir -p $D
rsync -a --delete --exclude .git --exclude test_db --exclude testStorage $R/ $D/
mkdir -p $D/internal/verifh
rsync -a --delete /verif/harness/ $D/internal/verifh/
cd $D && go mod edit -require=pgregory.net/rapid@v1.3.0
