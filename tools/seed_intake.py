#!/usr/bin/env python3
"""Take in a seeded change produced by a sub-agent in the scratch worktree /tmp/seed-<ID>:
confirm (1) the demonstration fails with the change, (2) passes without it, (3) the baseline suite
still passes with the change; then run our quick check(s) against the changed tree; store
patch.diff, the demonstration and meta.json under /verif/seeded/<name>/.

  tools/seed_intake.py <ID> [--name NAME] [--checks C02,C09] [--needs "text"] [--keep-worktree]
"""
import argparse, json, os, shutil, subprocess, sys, time

VERIF = os.path.dirname(os.path.dirname(os.path.abspath(__file__)))
ENV = dict(os.environ, GOFLAGS="-mod=mod", GOPROXY="off", GOSUMDB="off", GOTOOLCHAIN="local")


def sh(cmd, cwd=None, env=None, timeout=1800):
    p = subprocess.run(cmd, cwd=cwd, env=env or ENV, stdout=subprocess.PIPE, stderr=subprocess.STDOUT, text=True, timeout=timeout)
    return p.returncode, p.stdout


def main():
    ap = argparse.ArgumentParser()
    ap.add_argument("id")
    ap.add_argument("--name")
    ap.add_argument("--checks")
    ap.add_argument("--needs", default="")
    ap.add_argument("--tier", default="quick")
    ap.add_argument("--keep-worktree", action="store_true")
    ap.add_argument("--worktree")
    a = ap.parse_args()
    wt = a.worktree or "/tmp/seed-%s" % a.id
    name = a.name or a.id
    out = os.path.join(VERIF, "seeded", name)
    os.makedirs(os.path.join(out, "demo"), exist_ok=True)
    # the demonstration: untracked files
    rc, o = sh(["git", "status", "--porcelain"], cwd=wt)
    demos = [l[3:].strip() for l in o.splitlines() if l.startswith("??")]
    demos = [d for d in demos if not d.endswith("/")] + [os.path.join(d, f) for d in demos if d.endswith("/") for f in os.listdir(os.path.join(wt, d))]
    rc, patch = sh(["git", "diff", "--", "."], cwd=wt)
    open(os.path.join(out, "patch.diff"), "w").write(patch)
    changed = [l[3:].strip() for l in o.splitlines() if l.startswith(" M") or l.startswith("M ")]
    meta = dict(id=name, breaks_property=a.id, worktree_head=sh(["git", "rev-parse", "HEAD"], cwd=wt)[1].strip(), changed_files=changed,
                demonstration=demos, needs_to_manifest=a.needs, confirmed_at=time.strftime("%Y-%m-%dT%H:%M:%SZ", time.gmtime()), ran=[])
    for d in demos:
        dst = os.path.join(out, "demo", d.replace("/", "__"))
        shutil.copy(os.path.join(wt, d), dst)
    pkgs = sorted({"./" + os.path.dirname(d) for d in demos if d.endswith("_test.go")})
    demo_cmd = ["go", "test", "-tags", "verif", "-vet=off", "-count=1", "-run", "SeedDemo|Seed|seed"] + pkgs
    # (1) with the change
    rc1, o1 = sh(demo_cmd, cwd=wt)
    meta["ran"].append(dict(cmd=" ".join(demo_cmd), tree="with change", rc=rc1, tail=o1[-600:]))
    # (2) without
    # (never `git stash` here: the stash is shared by all worktrees of /repo)
    pf = os.path.join(out, "patch.diff")
    sh(["git", "apply", "-R", pf], cwd=wt)
    rc2, o2 = sh(demo_cmd, cwd=wt)
    rcA, oA = sh(["git", "apply", pf], cwd=wt)
    if rcA != 0:
        print("WARNING: could not re-apply the patch:", oA)
    meta["ran"].append(dict(cmd=" ".join(demo_cmd), tree="without change", rc=rc2, tail=o2[-300:]))
    # (3) baseline with the change, demo moved away
    hidden = []
    for d in demos:
        os.rename(os.path.join(wt, d), os.path.join(wt, d) + ".hidden")
        hidden.append(d)
    try:
        rc3, o3 = sh([os.path.join(VERIF, "tools", "baseline.py")], env=dict(ENV, VERIF_REPO=wt))
        meta["ran"].append(dict(cmd="tools/baseline.py (VERIF_REPO=worktree)", tree="with change", rc=rc3, tail=o3[-300:]))
        meta["confirmed"] = dict(demo_fails_with_change=rc1 != 0, demo_passes_without=rc2 == 0, baseline_passes_with_change=rc3 == 0)
        # our checks
        results = {}
        for prop in (a.checks or a.id).split(","):
            t0 = time.time()
            rc4, o4 = sh([os.path.join(VERIF, "check"), prop, "--tier", a.tier], env=dict(ENV, VERIF_REPO=wt))
            viol = [l for l in o4.splitlines() if l.startswith("violation:")]
            results[prop] = dict(rc=rc4, detected=rc4 == 1, wall_s=round(time.time() - t0, 1), first_violation=(viol[0][:400] if viol else ""),
                                 tail=("" if rc4 in (0, 1) else o4[-500:]))
        meta["checks_" + a.tier] = results
    finally:
        for d in hidden:
            os.rename(os.path.join(wt, d) + ".hidden", os.path.join(wt, d))
    json.dump(meta, open(os.path.join(out, "meta.json"), "w"), indent=1)
    print(json.dumps(dict(id=name, confirmed=meta.get("confirmed"), checks={k: (v["detected"], v["wall_s"], v["first_violation"][:160]) for k, v in meta.get("checks_" + a.tier, {}).items()}), indent=1))
    shutil.rmtree(os.path.join(VERIF, "replays", a.id, "found"), ignore_errors=True)
    if not a.keep_worktree and not a.worktree:
        subprocess.run(["git", "-C", "/repo", "worktree", "remove", "--force", wt])


if __name__ == "__main__":
    sys.exit(main())
