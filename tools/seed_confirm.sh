#!/bin/sh
# tools/seed_confirm.sh <name> '<go test flags and packages>' : confirm a stored seeded change by hand-specified flags
# (demonstrations that need -race or special tags): with the patch the demo must fail, without it pass.
set -u
N=$1; shift
WT=$(mktemp -d /tmp/verif-confirm-XXXX); rmdir $WT
git -C /repo worktree add --detach -q $WT HEAD
cd $WT
export GOFLAGS=-mod=mod GOPROXY=off GOSUMDB=off GOTOOLCHAIN=local
for f in /verif/seeded/$N/demo/*; do
  rel=$(basename $f | sed 's/__/\//g'); mkdir -p $(dirname $rel); cp $f $rel
done
git apply /verif/seeded/$N/patch.diff 2>/dev/null || (git apply --include='*.go' --exclude='*zz_seed*' /verif/seeded/$N/patch.diff)
echo "== with change"; go test -vet=off -count=1 "$@" 2>&1 | tail -4; 
git checkout -q -- . 
echo "== without change"; go test -vet=off -count=1 "$@" 2>&1 | tail -2
cd /; git -C /repo worktree remove --force $WT
