// Command rewrite prepares a copy of fs_db for the schedule-owning engine (E4): in the listed
// package directories it points the imports "sync" and "sync/atomic" to the managed replacements,
// turns `go f()` into detsync.Go, blocking selects and stand-alone channel operations into a
// polling form driven by the scheduler, time.After into a virtual timer and close(ch) into a
// managed close. Anything it does not understand is an error (exit 2), never a guess.
//
//	rewrite -root <tree> dir1 dir2 ...      (directories relative to root, non-recursive)
package main

import (
	"bytes"
	"flag"
	"fmt"
	"go/ast"
	"go/format"
	"go/parser"
	"go/token"
	"os"
	"path/filepath"
	"strconv"
	"strings"
)

const (
	detPath    = "github.com/glebziz/fs_db/internal/verifh/detsync"
	atomicPath = "github.com/glebziz/fs_db/internal/verifh/detsync/atomic"
)

var problems []string

func problem(fset *token.FileSet, pos token.Pos, format string, a ...any) {
	problems = append(problems, fmt.Sprintf("%s: %s", fset.Position(pos), fmt.Sprintf(format, a...)))
}

func main() {
	root := flag.String("root", ".", "tree to rewrite in place")
	flag.Parse()
	nfiles, nsel, ngo := 0, 0, 0
	for _, dir := range flag.Args() {
		full := filepath.Join(*root, dir)
		ents, err := os.ReadDir(full)
		if err != nil {
			fmt.Fprintln(os.Stderr, "rewrite:", err)
			os.Exit(2)
		}
		for _, e := range ents {
			name := e.Name()
			if e.IsDir() || !strings.HasSuffix(name, ".go") || strings.HasSuffix(name, "_test.go") {
				continue
			}
			s, g, changed := rewriteFile(filepath.Join(full, name))
			if changed {
				nfiles++
			}
			nsel += s
			ngo += g
		}
	}
	if len(problems) > 0 {
		for _, p := range problems {
			fmt.Fprintln(os.Stderr, "rewrite: unsupported construct:", p)
		}
		os.Exit(2)
	}
	fmt.Printf("rewrite: %d files changed, %d selects/channel operations, %d go statements\n", nfiles, nsel, ngo)
}

type rewriter struct {
	fset     *token.FileSet
	file     *ast.File
	needDet  bool
	nsel     int
	ngo      int
	counter  int
	timeName string // local name of package "time" ("" if not imported)
}

func rewriteFile(path string) (nsel, ngo int, changed bool) {
	fset := token.NewFileSet()
	src, err := os.ReadFile(path)
	if err != nil {
		fmt.Fprintln(os.Stderr, "rewrite:", err)
		os.Exit(2)
	}
	f, err := parser.ParseFile(fset, path, src, parser.ParseComments)
	if err != nil {
		fmt.Fprintln(os.Stderr, "rewrite:", err)
		os.Exit(2)
	}
	rw := &rewriter{fset: fset, file: f}
	// imports
	for _, imp := range f.Imports {
		p, _ := strconv.Unquote(imp.Path.Value)
		switch p {
		case "sync":
			name := "sync"
			if imp.Name != nil {
				name = imp.Name.Name
			}
			imp.Path.Value = strconv.Quote(detPath)
			imp.Name = ast.NewIdent(name)
			changed = true
		case "sync/atomic":
			name := "atomic"
			if imp.Name != nil {
				name = imp.Name.Name
			}
			imp.Path.Value = strconv.Quote(atomicPath)
			imp.Name = ast.NewIdent(name)
			changed = true
		case "golang.org/x/sync/errgroup", "golang.org/x/sync/semaphore", "golang.org/x/sync/singleflight":
			// these start or park goroutines behind the scheduler's back: code run by them would use the
			// managed primitives from a goroutine the scheduler does not know
			problem(fset, imp.Pos(), "package %s is not supported by the managed scheduler (unmanaged goroutines / blocking)", p)
		case "time":
			rw.timeName = "time"
			if imp.Name != nil {
				rw.timeName = imp.Name.Name
			}
		}
	}
	// statements
	for _, d := range f.Decls {
		fd, ok := d.(*ast.FuncDecl)
		if !ok || fd.Body == nil {
			continue
		}
		rw.block(fd.Body)
	}
	// expressions: time.After/Sleep/NewTimer/NewTicker/Tick/AfterFunc and the types time.Timer/time.Ticker
	// -> their managed counterparts (virtual time), close(x) -> detsync.Close(x)
	ast.Inspect(f, func(n ast.Node) bool {
		if sel, ok := n.(*ast.SelectorExpr); ok && rw.timeName != "" {
			if id, ok := sel.X.(*ast.Ident); ok && id.Name == rw.timeName && id.Obj == nil {
				switch sel.Sel.Name {
				case "After", "Sleep", "NewTimer", "NewTicker", "Tick", "AfterFunc", "Timer", "Ticker":
					sel.X = ast.NewIdent("detsync")
					rw.needDet = true
				}
			}
		}
		call, ok := n.(*ast.CallExpr)
		if !ok {
			return true
		}
		if id, ok := call.Fun.(*ast.Ident); ok && id.Name == "close" && id.Obj == nil && len(call.Args) == 1 {
			call.Fun = &ast.SelectorExpr{X: ast.NewIdent("detsync"), Sel: ast.NewIdent("Close")}
			rw.needDet = true
		}
		return true
	})
	if rw.needDet {
		changed = true
		addImport(f, "detsync", detPath)
	}
	if !changed {
		return 0, 0, false
	}
	var buf bytes.Buffer
	if err := format.Node(&buf, fset, f); err != nil {
		fmt.Fprintln(os.Stderr, "rewrite: printing", path, err)
		os.Exit(2)
	}
	// dropped "time" usage may leave the import unused
	out := buf.Bytes()
	if rw.timeName != "" && !bytes.Contains(stripImports(out), []byte(rw.timeName+".")) {
		out = removeImport(out, "time")
	}
	if err := os.WriteFile(path, out, 0o644); err != nil {
		fmt.Fprintln(os.Stderr, "rewrite:", err)
		os.Exit(2)
	}
	return rw.nsel, rw.ngo, true
}

func stripImports(src []byte) []byte {
	i := bytes.Index(src, []byte("\nfunc "))
	j := bytes.Index(src, []byte("\ntype "))
	k := bytes.Index(src, []byte("\nvar "))
	m := bytes.Index(src, []byte("\nconst "))
	best := -1
	for _, x := range []int{i, j, k, m} {
		if x >= 0 && (best < 0 || x < best) {
			best = x
		}
	}
	if best < 0 {
		return src
	}
	return src[best:]
}

func removeImport(src []byte, path string) []byte {
	lines := strings.Split(string(src), "\n")
	var out []string
	for _, l := range lines {
		t := strings.TrimSpace(l)
		if t == strconv.Quote(path) || t == "import "+strconv.Quote(path) {
			continue
		}
		out = append(out, l)
	}
	return []byte(strings.Join(out, "\n"))
}

func addImport(f *ast.File, name, path string) {
	spec := &ast.ImportSpec{Name: ast.NewIdent(name), Path: &ast.BasicLit{Kind: token.STRING, Value: strconv.Quote(path)}}
	for _, d := range f.Decls {
		if gd, ok := d.(*ast.GenDecl); ok && gd.Tok == token.IMPORT {
			gd.Specs = append(gd.Specs, spec)
			if gd.Lparen == token.NoPos {
				gd.Lparen = gd.Pos()
				gd.Rparen = gd.End()
			}
			f.Imports = append(f.Imports, spec)
			return
		}
	}
	gd := &ast.GenDecl{Tok: token.IMPORT, Specs: []ast.Spec{spec}}
	f.Decls = append([]ast.Decl{gd}, f.Decls...)
	f.Imports = append(f.Imports, spec)
}

func (rw *rewriter) tmp(prefix string) string {
	rw.counter++
	return fmt.Sprintf("_%s%d", prefix, rw.counter)
}

// block rewrites the statements of a block in place (recursively).
func (rw *rewriter) block(b *ast.BlockStmt) {
	if b == nil {
		return
	}
	b.List = rw.stmts(b.List)
}

func (rw *rewriter) stmts(list []ast.Stmt) []ast.Stmt {
	var out []ast.Stmt
	for _, s := range list {
		out = append(out, rw.stmt(s)...)
	}
	return out
}

func det(name string) ast.Expr {
	return &ast.SelectorExpr{X: ast.NewIdent("detsync"), Sel: ast.NewIdent(name)}
}

func (rw *rewriter) funcLits(n ast.Node) {
	ast.Inspect(n, func(x ast.Node) bool {
		if fl, ok := x.(*ast.FuncLit); ok {
			rw.block(fl.Body)
			return false
		}
		return true
	})
}

func (rw *rewriter) stmt(s ast.Stmt) []ast.Stmt {
	switch st := s.(type) {
	case *ast.BlockStmt:
		rw.block(st)
	case *ast.IfStmt:
		if st.Init != nil {
			rw.funcLits(st.Init)
		}
		rw.funcLits(st.Cond)
		st.Cond = rw.recvs(st.Cond)
		rw.block(st.Body)
		if st.Else != nil {
			r := rw.stmt(st.Else)
			if len(r) == 1 {
				st.Else = r[0]
			} else {
				st.Else = &ast.BlockStmt{List: r}
			}
		}
	case *ast.ForStmt:
		rw.block(st.Body)
	case *ast.RangeStmt:
		if isChanRangeCandidate(st) {
			// cannot know the type without type checking: flag only the syntactic `for range ch`
		}
		rw.funcLits(st.X)
		rw.block(st.Body)
	case *ast.SwitchStmt:
		st.Tag = rw.recvs(st.Tag)
		for _, c := range st.Body.List {
			cc := c.(*ast.CaseClause)
			cc.Body = rw.stmts(cc.Body)
		}
	case *ast.TypeSwitchStmt:
		for _, c := range st.Body.List {
			cc := c.(*ast.CaseClause)
			cc.Body = rw.stmts(cc.Body)
		}
	case *ast.LabeledStmt:
		r := rw.stmt(st.Stmt)
		if len(r) == 1 {
			st.Stmt = r[0]
		} else {
			st.Stmt = &ast.BlockStmt{List: r}
		}
	case *ast.GoStmt:
		rw.ngo++
		rw.needDet = true
		rw.funcLits(st.Call)
		for _, a := range st.Call.Args {
			if _, lit := a.(*ast.BasicLit); !lit {
				if _, id := a.(*ast.Ident); !id {
					problem(rw.fset, st.Pos(), "go statement with computed arguments")
				}
			}
		}
		var body []ast.Stmt
		if fl, ok := st.Call.Fun.(*ast.FuncLit); ok && len(st.Call.Args) == 0 {
			body = fl.Body.List
		} else {
			body = []ast.Stmt{&ast.ExprStmt{X: st.Call}}
		}
		return []ast.Stmt{&ast.ExprStmt{X: &ast.CallExpr{Fun: det("Go"), Args: []ast.Expr{
			&ast.FuncLit{Type: &ast.FuncType{Params: &ast.FieldList{}}, Body: &ast.BlockStmt{List: body}},
		}}}}
	case *ast.DeferStmt:
		rw.funcLits(st.Call)
	case *ast.SelectStmt:
		return rw.selectStmt(st)
	case *ast.SendStmt:
		return rw.selectStmt(&ast.SelectStmt{Body: &ast.BlockStmt{List: []ast.Stmt{&ast.CommClause{Comm: st}}}})
	case *ast.ExprStmt:
		if u, ok := st.X.(*ast.UnaryExpr); ok && u.Op == token.ARROW {
			return rw.selectStmt(&ast.SelectStmt{Body: &ast.BlockStmt{List: []ast.Stmt{&ast.CommClause{Comm: st}}}})
		}
		rw.funcLits(st.X)
		st.X = rw.recvs(st.X)
	case *ast.AssignStmt:
		if len(st.Rhs) == 1 {
			if u, ok := st.Rhs[0].(*ast.UnaryExpr); ok && u.Op == token.ARROW {
				if st.Tok == token.DEFINE || len(st.Lhs) == 2 {
					// `v := <-ch`, `v, ok := <-ch`, `v, ok = <-ch`: the managed receive as a call
					rw.needDet = true
					rw.nsel++
					fn := "Recv"
					if len(st.Lhs) == 2 {
						fn = "Recv2"
					}
					st.Rhs[0] = &ast.CallExpr{Fun: det(fn), Args: []ast.Expr{rw.recvs(u.X)}}
					return []ast.Stmt{s}
				}
				return rw.selectStmt(&ast.SelectStmt{Body: &ast.BlockStmt{List: []ast.Stmt{&ast.CommClause{Comm: st}}}})
			}
		}
		for i, r := range st.Rhs {
			rw.funcLits(r)
			st.Rhs[i] = rw.recvs(r)
		}
	case *ast.ReturnStmt:
		for i, r := range st.Results {
			rw.funcLits(r)
			st.Results[i] = rw.recvs(r)
		}
	case *ast.DeclStmt:
		rw.funcLits(st)
	}
	return []ast.Stmt{s}
}

func isChanRangeCandidate(*ast.RangeStmt) bool { return false }

// recvs returns e with every receive expression inside it (`<-ch` as an operand, an argument, a result)
// replaced by the managed detsync.Recv(ch); function literals are left alone (their bodies are rewritten as
// blocks of their own).
func (rw *rewriter) recvs(e ast.Expr) ast.Expr {
	switch x := e.(type) {
	case nil:
		return nil
	case *ast.UnaryExpr:
		x.X = rw.recvs(x.X)
		if x.Op == token.ARROW {
			rw.needDet = true
			rw.nsel++
			return &ast.CallExpr{Fun: det("Recv"), Args: []ast.Expr{x.X}}
		}
	case *ast.BinaryExpr:
		x.X, x.Y = rw.recvs(x.X), rw.recvs(x.Y)
	case *ast.ParenExpr:
		x.X = rw.recvs(x.X)
	case *ast.CallExpr:
		x.Fun = rw.recvs(x.Fun)
		for i := range x.Args {
			x.Args[i] = rw.recvs(x.Args[i])
		}
	case *ast.SelectorExpr:
		x.X = rw.recvs(x.X)
	case *ast.IndexExpr:
		x.X, x.Index = rw.recvs(x.X), rw.recvs(x.Index)
	case *ast.SliceExpr:
		x.X, x.Low, x.High, x.Max = rw.recvs(x.X), rw.recvs(x.Low), rw.recvs(x.High), rw.recvs(x.Max)
	case *ast.StarExpr:
		x.X = rw.recvs(x.X)
	case *ast.TypeAssertExpr:
		x.X = rw.recvs(x.X)
	case *ast.KeyValueExpr:
		x.Value = rw.recvs(x.Value)
	case *ast.CompositeLit:
		for i := range x.Elts {
			x.Elts[i] = rw.recvs(x.Elts[i])
		}
	}
	return e
}

// selectStmt rewrites a blocking select into the polling form:
//
//	{ c0 := <chan0>; c1, v1 := <chan1>, <val1>; ...
//	  sel := detsync.NewSelect(n)
//	L: switch sel.Next() {
//	   case 0: select { case <-c0: sel.Hit(); body0; default: goto L }
//	   ... } }
func (rw *rewriter) selectStmt(st *ast.SelectStmt) []ast.Stmt {
	hasDefault := false
	for _, c := range st.Body.List {
		if c.(*ast.CommClause).Comm == nil {
			hasDefault = true
		}
	}
	for _, c := range st.Body.List {
		cc := c.(*ast.CommClause)
		cc.Body = rw.stmts(cc.Body)
	}
	if hasDefault {
		// non-blocking already: only make it a scheduling point
		rw.needDet = true
		return []ast.Stmt{
			&ast.ExprStmt{X: &ast.CallExpr{Fun: det("Yield"), Args: []ast.Expr{&ast.BasicLit{Kind: token.STRING, Value: `"select-default"`}}}},
			st,
		}
	}
	rw.nsel++
	rw.needDet = true
	selName := rw.tmp("sel")
	label := rw.tmp("L")
	var pre []ast.Stmt
	var cases []ast.Stmt
	n := len(st.Body.List)
	for i, c := range st.Body.List {
		cc := c.(*ast.CommClause)
		chName := rw.tmp("c")
		var comm ast.Stmt
		switch cm := cc.Comm.(type) {
		case *ast.SendStmt:
			valName := rw.tmp("v")
			pre = append(pre, &ast.AssignStmt{Lhs: []ast.Expr{ast.NewIdent(chName), ast.NewIdent(valName)}, Tok: token.DEFINE, Rhs: []ast.Expr{cm.Chan, cm.Value}})
			comm = &ast.SendStmt{Chan: ast.NewIdent(chName), Value: ast.NewIdent(valName)}
		case *ast.ExprStmt:
			u, ok := cm.X.(*ast.UnaryExpr)
			if !ok || u.Op != token.ARROW {
				problem(rw.fset, cm.Pos(), "unexpected select case")
				return []ast.Stmt{st}
			}
			pre = append(pre, &ast.AssignStmt{Lhs: []ast.Expr{ast.NewIdent(chName)}, Tok: token.DEFINE, Rhs: []ast.Expr{u.X}})
			comm = &ast.ExprStmt{X: &ast.UnaryExpr{Op: token.ARROW, X: ast.NewIdent(chName)}}
		case *ast.AssignStmt:
			u, ok := cm.Rhs[0].(*ast.UnaryExpr)
			if !ok || u.Op != token.ARROW || len(cm.Rhs) != 1 {
				problem(rw.fset, cm.Pos(), "unexpected select case")
				return []ast.Stmt{st}
			}
			pre = append(pre, &ast.AssignStmt{Lhs: []ast.Expr{ast.NewIdent(chName)}, Tok: token.DEFINE, Rhs: []ast.Expr{u.X}})
			comm = &ast.AssignStmt{Lhs: cm.Lhs, Tok: cm.Tok, Rhs: []ast.Expr{&ast.UnaryExpr{Op: token.ARROW, X: ast.NewIdent(chName)}}}
		default:
			problem(rw.fset, cc.Pos(), "unexpected select case")
			return []ast.Stmt{st}
		}
		hit := &ast.ExprStmt{X: &ast.CallExpr{Fun: &ast.SelectorExpr{X: ast.NewIdent(selName), Sel: ast.NewIdent("Hit")}}}
		body := append([]ast.Stmt{hit}, cc.Body...)
		inner := &ast.SelectStmt{Body: &ast.BlockStmt{List: []ast.Stmt{
			&ast.CommClause{Comm: comm, Body: body},
			&ast.CommClause{Comm: nil, Body: []ast.Stmt{&ast.BranchStmt{Tok: token.GOTO, Label: ast.NewIdent(label)}}},
		}}}
		cases = append(cases, &ast.CaseClause{List: []ast.Expr{&ast.BasicLit{Kind: token.INT, Value: strconv.Itoa(i)}}, Body: []ast.Stmt{inner}})
	}
	pre = append(pre, &ast.AssignStmt{Lhs: []ast.Expr{ast.NewIdent(selName)}, Tok: token.DEFINE, Rhs: []ast.Expr{
		&ast.CallExpr{Fun: det("NewSelect"), Args: []ast.Expr{&ast.BasicLit{Kind: token.INT, Value: strconv.Itoa(n)}}},
	}})
	sw := &ast.SwitchStmt{Tag: &ast.CallExpr{Fun: &ast.SelectorExpr{X: ast.NewIdent(selName), Sel: ast.NewIdent("Next")}}, Body: &ast.BlockStmt{List: cases}}
	labeled := &ast.LabeledStmt{Label: ast.NewIdent(label), Stmt: sw}
	return []ast.Stmt{&ast.BlockStmt{List: append(pre, labeled)}}
}
