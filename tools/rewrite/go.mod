module verifrewrite

go 1.23
