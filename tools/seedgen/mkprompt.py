#!/usr/bin/env python3
"""Create the scratch worktree /tmp/seed-<ID> of /repo and print the prompt for a seeding sub-agent.
The prompt contains the property text and the list of mechanisms already used (tools/seedgen/mechanisms_used.txt),
nothing else from /verif.

  tools/seedgen/mkprompt.py C07 [--hint "text"]
"""
import json, os, subprocess, sys

HERE = os.path.dirname(os.path.abspath(__file__))
VERIF = os.path.dirname(os.path.dirname(HERE))


def main():
    pid = sys.argv[1]
    hint = sys.argv[3] if len(sys.argv) > 3 and sys.argv[2] == "--hint" else ""
    wt = "/tmp/seed-%s" % pid
    if not os.path.isdir(wt):
        subprocess.run(["git", "-C", "/repo", "worktree", "prune"], check=True)
        subprocess.run(["git", "-C", "/repo", "worktree", "add", "--detach", "-q", wt, "HEAD"], check=True)
    prop = None
    for l in open(os.path.join(VERIF, "properties.jsonl")):
        p = json.loads(l)
        if p["id"] == pid:
            prop = p
    mech = open(os.path.join(HERE, "mechanisms_used.txt")).read()
    print(PROMPT.format(wt=wt, pid=pid, title=prop["title"], statement=prop["statement"], quantifier=prop.get("quantifier", ""),
                        anchors=json.dumps(prop.get("anchors", "")), mech=mech, hint=hint))


PROMPT = """You are helping to evaluate a verification framework by mutation ("seeding a defect"). Work ONLY inside the scratch git worktree {wt} (a checkout of the Go project glebziz/fs_db: a small key-value store for files - content on disk, metadata in Badger, in-memory per-key version lists with four transaction isolation levels, usable inline or over gRPC). Never read or write /repo, /verif or any other directory outside {wt} (temporary files: use `mktemp -d` under /tmp and remove them). Never commit, never stash, never run `git worktree`. The machine has no network. Every shell call needs: `export GOFLAGS=-mod=mod GOPROXY=off GOSUMDB=off GOTOOLCHAIN=local`.

PROPERTY {pid} - {title}
Statement: {statement}
Quantifier: {quantifier}
Code anchors: {anchors}

YOUR TASK: make ONE realistic change to the non-test Go source of fs_db in {wt} that BREAKS this property, such that
 (a) the project still compiles (`go build ./... && go vet ./... 2>/dev/null; true`),
 (b) the existing test suite still passes: `go test -vet=off -count=1 ./...` (run it at the end, it takes about a minute; packages needing the build tags `test`, `inline`, `external` are not part of it),
 (c) the change looks like something a maintainer could plausibly have written (a refactoring, an optimisation, a clean-up, a "simplification", a new fast path, a resource-saving measure) - not an obvious sabotage, no dead giveaway comments,
 (d) it needs something SPECIFIC to manifest: a particular interleaving, a crash or fault at a particular point, a multi-step sequence of operations, an unusual but legitimate input or usage pattern (sizes, reader/writer habits, contexts, long-lived handles, configuration values, several instances, ordering of calls), or two cooperating sites that each look fine alone. Ordinary use must NOT expose it at once.
 (e) It must break THIS property as stated (read the statement carefully), through the public behaviour the statement talks about.

The code has hooks behind the build tag `verif` (package internal/verifhook and a few *_verif.go files): leave them alone and do not use them.

The following mechanisms have ALREADY been used by earlier rounds (for this or neighbouring properties). Find a DIFFERENT one - a different code site AND a different kind of trigger. Read the code first (start from the anchors, then the callers), and prefer triggers from corners of legitimate usage nobody thinks of:
{mech}
{hint}
DEMONSTRATION: write a test file named `zz_seed_demo_test.go` (test functions named `TestSeedDemo...`) in one suitable package directory of the worktree (for example pkg/inline/db, which can open a real database in a temp dir; look at how pkg/inline/db.New and config.Config are used). It must FAIL with your change and PASS without it (check both: `git stash` is forbidden, so use `git diff > /tmp/<something>.diff; git apply -R ...; run; git apply ...`). It must be deterministic if at all possible (if the bug needs an interleaving, force it with channels/gates inside the test or loop until it shows with a generous bound; if it needs a crash, simulate by closing/reopening or by copying directories). It must build with `go test -tags verif -vet=off -run SeedDemo <pkg>`. If the demonstration needs the race detector, say so explicitly.

LEAVE the worktree with your change applied (uncommitted, `git diff` shows only your change to non-test source files) and the demo file untracked. Do not leave other untracked files.

REPORT (your final message, plain text): 1. files changed and a two-line description of the change; 2. exactly what it needs in order to manifest; 3. the commands you ran and their outcome (demo with change: FAIL, demo without: PASS, full test suite with change: PASS); 4. why the existing tests cannot see it.
"""

if __name__ == "__main__":
    main()
