#!/bin/sh
# Re-run the quick checks against the stored behaviour-preserving changes (benign/<id>/patch.diff): every run must end with exit 0.
#   tools/benign_matrix.sh [ids...]
cd "$(dirname "$0")/.."
checks_for() { case $1 in
  B1) echo C02 C03 C06 C07 C08 C09 C13 C14 C15 C04 C05;; B2) echo C16 C14 C15 C09 C12 C06;; B3) echo C12 C01 C10 C15 C11 C05;;
  B4) echo C19 C04 C05 C10 C17 C01 C14 C15;; B5) echo C11 C10 C15;; B6) echo C01 C02 C03 C10 C13 C14 C17 C09 C06 C15;;
  B7) echo C20 C05 C15 C11 C17;; B8) echo C18 C02 C06 C08 C09 C16 C15 C05;;
  B9) echo C14 C09 C15 C04 C05 C17 C06 C13;; B10) echo C10 C12 C01 C14 C17 C04 C15 C11;; B11) echo C11 C10 C15 C12;;
  B12) echo C08 C09 C02 C13 C07 C06 C15 C14;; B13) echo C04 C05 C19 C14 C15 C01 C03;; B14) echo C01 C11 C02 C09 C15 C06 C14 C10;; esac; }
for b in ${@:-B1 B2 B3 B4 B5 B6 B7 B8 B9 B10 B11 B12 B13 B14}; do
  WT=$(mktemp -d /tmp/verif-benign-XXXX); rmdir $WT
  git -C /repo worktree add --detach -q $WT HEAD
  if ! git -C $WT apply /verif/benign/$b/patch.diff; then echo "$b PATCH DOES NOT APPLY"; git -C /repo worktree remove --force $WT; continue; fi
  for c in $(checks_for $b); do
    s=$(date +%s); out=$(VERIF_REPO=$WT ./check $c --tier quick 2>&1); rc=$?
    echo "$b $c rc=$rc $(( $(date +%s)-s ))s $(echo "$out" | grep -E '^violation|INCONCLUSIVE' | head -1 | cut -c1-300)"
  done
  git -C /repo worktree remove --force $WT
done
