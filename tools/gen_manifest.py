#!/usr/bin/env python3
"""Regenerate /verif/MANIFEST.json from manifest_src.py + checks_cfg.py (keeps it valid at all times)."""
import json, os, sys
VERIF = os.path.dirname(os.path.dirname(os.path.abspath(__file__)))
sys.path.insert(0, VERIF)
from checks_cfg import CHECKS
from manifest_src import META, PER_CHECK, NOT_APPLICABLE
checks = []
for pid in sorted(CHECKS):
    if pid not in PER_CHECK:
        continue
    m = PER_CHECK[pid]
    checks.append(dict(
        property_id=pid,
        quick_cmd="./check %s --tier quick" % pid,
        thorough_cmd="./check %s --tier thorough" % pid,
        evidence_file="/verif/evidence/%s.json" % pid,
        replay_cmd_template="./check %s --replay {path}" % pid,
        engine=m["engine"],
        level_claimed=dict(category=CHECKS[pid]["level"], text=m["level_text"], design_ref=m["design_ref"]),
        level_note=m["level_note"],
        technique=m["technique"],
    ))
man = dict(META)
man["checks"] = checks
claimed = {c["property_id"] for c in checks}
man["not_applicable"] = [n for n in NOT_APPLICABLE if n["property_id"] not in claimed]
json.dump(man, open(os.path.join(VERIF, "MANIFEST.json"), "w"), indent=1)
print("MANIFEST.json: %d checks, %d not_applicable" % (len(checks), len(man["not_applicable"])))
try:
    import jsonschema
    jsonschema.validate(man, json.load(open("/root/.vp/MANIFEST.schema.json")))
    print("schema: valid")
except ImportError:
    print("jsonschema not available for this python; validate with python3-vt")
