#!/bin/sh
# Measure which statements of fs_db the E1/E3 generators (package seq, in-process parts) execute:
#   tools/coverage.sh [cases-per-test]     -> prints functions below 100 %, total at the end
# Child processes (C04 crash children, C15 race children) and E4 (rewritten tree) are not counted.
set -e
N=${1:-150}
export GOFLAGS=-mod=mod GOPROXY=off GOSUMDB=off GOTOOLCHAIN=local
S=$(mktemp -d /tmp/verif-cov-XXXXXX); DB=$(mktemp -d /dev/shm/verif-covdb-XXXXXX)
trap 'rm -rf "$S" "$DB"' EXIT
rsync -a --exclude .git "${VERIF_REPO:-/repo}/" "$S/repo/"
cp -r "$(dirname "$0")/../harness" "$S/repo/internal/verifh"
cd "$S/repo" && go mod edit -require=pgregory.net/rapid@v1.3.0
mkdir -p "$S/out"
VERIF_KNOWN="$(dirname "$0")/../KNOWN_FINDINGS.jsonl" VERIF_DIR="$(dirname "$0")/.." VERIF_TIER=quick TMPDIR=$DB VERIF_DB_ROOT=$DB VERIF_OUT=$S/out VERIF_SEED=1 \
  go test -tags verif -vet=off -count=1 -coverpkg=./internal/...,./pkg/...,. -coverprofile=$S/seq.out \
  -run 'TestC01$|TestC02$|TestC03$|TestC05$|TestC09$|TestC10$|TestC11$|TestC13$|TestC14$|TestC17$' ./internal/verifh/seq -args -rapid.checks=$N | tail -2
go tool cover -func=$S/seq.out | grep -v "verifh\|/mocks/\|\.pb\.go\|_grpc\|verifhook\|/gen/" | awk '$3+0 < 100.0 {printf "%-70s %-28s %s\n",$1,$2,$3}' | sed 's/github.com\/glebziz\/fs_db\///'
