#!/usr/bin/env python3
"""Re-run our checks against stored seeded changes: scratch worktree of /repo's HEAD + seeded/<name>/patch.diff.
  tools/seed_rerun.py <name>... [--checks C02,C09] [--tier quick] [--seeds 1,2,3]
Updates seeded/<name>/meta.json (key reruns)."""
import argparse, json, os, shutil, subprocess, sys, tempfile, time

VERIF = os.path.dirname(os.path.dirname(os.path.abspath(__file__)))
ap = argparse.ArgumentParser()
ap.add_argument("names", nargs="+")
ap.add_argument("--checks")
ap.add_argument("--tier", default="quick")
ap.add_argument("--seeds", default="1")
a = ap.parse_args()
for name in a.names:
    d = os.path.join(VERIF, "seeded", name)
    meta = json.load(open(os.path.join(d, "meta.json")))
    wt = tempfile.mkdtemp(prefix="verif-seedrun-")
    os.rmdir(wt)
    subprocess.run(["git", "-C", "/repo", "worktree", "add", "--detach", "-q", wt, "HEAD"], check=True)
    try:
        p = subprocess.run(["git", "apply", os.path.join(d, "patch.diff")], cwd=wt, stdout=subprocess.PIPE, stderr=subprocess.STDOUT, text=True)
        if p.returncode != 0:
            print(name, "PATCH DOES NOT APPLY:", p.stdout[-300:])
            continue
        for prop in (a.checks or meta["breaks_property"]).split(","):
            for seed in a.seeds.split(","):
                t0 = time.time()
                p = subprocess.run([os.path.join(VERIF, "check"), prop, "--tier", a.tier], env=dict(os.environ, VERIF_REPO=wt, VERIF_SEED=seed),
                                   stdout=subprocess.PIPE, stderr=subprocess.STDOUT, text=True)
                viol = [l for l in p.stdout.splitlines() if l.startswith("violation:")]
                res = dict(check=prop, tier=a.tier, seed=int(seed), rc=p.returncode, detected=p.returncode == 1, wall_s=round(time.time() - t0, 1),
                           first_violation=(viol[0][:400] if viol else ""), at=time.strftime("%Y-%m-%dT%H:%M:%SZ", time.gmtime()),
                           verif_commit=subprocess.run(["git", "-C", VERIF, "rev-parse", "--short", "HEAD"], stdout=subprocess.PIPE, text=True).stdout.strip())
                if p.returncode not in (0, 1):
                    res["tail"] = p.stdout[-400:]
                meta.setdefault("reruns", []).append(res)
                print(name, prop, "seed", seed, "DETECTED" if res["detected"] else "missed rc=%d" % p.returncode, res["wall_s"], res["first_violation"][:150], flush=True)
            shutil.rmtree(os.path.join(VERIF, "replays", prop, "found"), ignore_errors=True)
    finally:
        subprocess.run(["git", "-C", "/repo", "worktree", "remove", "--force", wt])
    json.dump(meta, open(os.path.join(d, "meta.json"), "w"), indent=1)
