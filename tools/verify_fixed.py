#!/usr/bin/env python3
"""For every 'fixed' entry of KNOWN_FINDINGS.jsonl: check out the parent of the fix commit into a scratch
worktree and run the entry's replay there - it must FAIL (that is what the fix repaired) - and on the
current tree, where it must pass. With --regen a replay that does not fail on the pre-fix tree is replaced
by a failing case found by the quick check on that tree."""
import json, os, shutil, subprocess, sys, tempfile, glob

VERIF = os.path.dirname(os.path.dirname(os.path.abspath(__file__)))
regen = "--regen" in sys.argv
only = [a for a in sys.argv[1:] if not a.startswith("--")]
ents = [json.loads(l) for l in open(os.path.join(VERIF, "KNOWN_FINDINGS.jsonl")) if l.strip() and not l.startswith("#")]
ok = True
for e in ents:
    if e["status"] != "fixed" or (only and e["id"] not in only and e["property"] not in only):
        continue
    wt = tempfile.mkdtemp(prefix="verif-prefix-")
    os.rmdir(wt)
    subprocess.run(["git", "-C", "/repo", "worktree", "add", "--detach", "-q", wt, e["commit"] + "^"], check=True)
    try:
        # the pre-fix tree needs the hooks: they were committed before every fix
        env = dict(os.environ, VERIF_REPO=wt)
        p = subprocess.run([os.path.join(VERIF, "check"), e["property"], "--replay", os.path.join(VERIF, e["replay"])], env=env,
                           stdout=subprocess.PIPE, stderr=subprocess.STDOUT, text=True)
        pre = p.returncode
        p2 = subprocess.run([os.path.join(VERIF, "check"), e["property"], "--replay", os.path.join(VERIF, e["replay"])],
                            stdout=subprocess.PIPE, stderr=subprocess.STDOUT, text=True)
        cur = p2.returncode
        status = "OK" if pre == 1 and cur == 0 else "PROBLEM"
        print("%-38s pre-fix(%s^): rc=%d  current: rc=%d  %s" % (e["id"], e["commit"], pre, cur, status), flush=True)
        if status != "OK":
            ok = False
            print("   pre-fix output tail:", p.stdout[-400:].replace("\n", " | "))
            if cur != 0:
                print("   current output tail:", p2.stdout[-400:].replace("\n", " | "))
            if regen and pre != 1:
                found = os.path.join(VERIF, "replays", e["property"], "found")
                shutil.rmtree(found, ignore_errors=True)
                subprocess.run([os.path.join(VERIF, "check"), e["property"]], env=env, stdout=subprocess.DEVNULL, stderr=subprocess.DEVNULL)
                fs = sorted(glob.glob(found + "/*.json"))
                print("   regen: %d failing cases found on the pre-fix tree" % len(fs))
                for f in fs:
                    print("      ", f, json.load(open(f))["message"][:160].replace("\n", " "))
    finally:
        subprocess.run(["git", "-C", "/repo", "worktree", "remove", "--force", wt])
sys.exit(0 if ok else 1)
