#!/bin/sh
# Re-run every stored seeded change against the check that is expected to catch it (quick tier).
#   tools/seed_matrix.sh [seed]
cd "$(dirname "$0")/.."
S=${1:-1}
for d in seeded/*/; do
  n=$(basename $d)
  case $n in
    C01) c=C11;; C12) c=C10;; C05-b) c=C06;; C13-b) c=C11;; C11-d) c=C10;; C12-d) c=C11;; C13-d) c=C11;;
    C03-e) c=C05;; C19-e) c=C05;; C01-f) c=C10;;
    C01-g) c=C11;; C02-g) c=C11;; C03-g) c=C05;; C04-g) c=C03;; C06-g) c=C02;; C07-g) c=C05;; C08-g) c=C15;; C18-g) c=C14;; C19-g) c=C05;; C20-g) c=C17;; C18-f) c=C05;; C19-f) c=C17;;
    C06-h) c=C09;; C08-h) c=C09;; C18-h) c=C02;;
    C07-k) c=C03;; C12-k) c=C11;; C13-k) c=C06;;
    C07-j) c=C03;; C13-j) c=C11;; C18-j) c=C15;;
    C05-i) c=C06;; C08-i) c=C09;; C12-i) c=C11;; C13-i) c=C11;; C17-i) c=C10;; C18-i) c=C05;;
    C13-h|C15-h|C07-i|C10-k|C08-k) echo "$n skipped (C13-h: outside the stated domain; C15-h, C07-i, C10-k: neutralised by fixes 659745f, 6630b36, 678fd65; C08-k: thorough tier only)"; continue;;
    *) c=$(echo $n | cut -c1-3);;
  esac
  tools/seed_rerun.py $n --checks $c --seeds $S 2>&1 | tail -1 | cut -c1-200
done
