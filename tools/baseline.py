#!/usr/bin/env python3
"""Run the repository's baseline test suite (hook guard OFF) and compare with /root/.vp/BASELINE.json.
Exit 0 iff every test listed in stable_pass passes."""
import json, os, shutil, subprocess, sys, tempfile

REPO = os.environ.get("VERIF_REPO", "/repo")
BASE = os.environ.get("VERIF_BASELINE", "/root/.vp/BASELINE.json")


def main():
    # the project's own tests leave their temporary databases behind: give them a directory that is removed
    tmp = tempfile.mkdtemp(prefix="verif-baseline-")
    env = dict(os.environ, GOFLAGS="-mod=mod", GOPROXY="off", GOSUMDB="off", GOTOOLCHAIN="local", TMPDIR=tmp)
    try:
        return run(env)
    finally:
        shutil.rmtree(tmp, ignore_errors=True)


def run(env):
    p = subprocess.run(["go", "test", "-json", "-vet=off", "-count=1", "-timeout", "25m", "./..."], cwd=REPO, env=env,
                       stdout=subprocess.PIPE, stderr=subprocess.DEVNULL, text=True)
    status = {}
    for line in p.stdout.splitlines():
        try:
            d = json.loads(line)
        except ValueError:
            continue
        if d.get("Test") and d.get("Action") in ("pass", "fail", "skip"):
            status["%s::%s" % (d["Package"], d["Test"])] = d["Action"]
    want = json.load(open(BASE))["stable_pass"]
    bad = [t for t in want if status.get(t) != "pass"]
    # internal/repository/dir TestRep_Get compares the free disk space of two consecutive calls and so
    # fails when anything else writes to the disk meanwhile: re-run failing packages (up to twice)
    for _ in range(2):
        if not bad:
            break
        pkgs = sorted({t.split("::")[0] for t in bad})
        p = subprocess.run(["go", "test", "-json", "-vet=off", "-count=1", "-timeout", "25m"] + pkgs, cwd=REPO, env=env,
                           stdout=subprocess.PIPE, stderr=subprocess.DEVNULL, text=True)
        for line in p.stdout.splitlines():
            try:
                d = json.loads(line)
            except ValueError:
                continue
            if d.get("Test") and d.get("Action") == "pass":
                status["%s::%s" % (d["Package"], d["Test"])] = "pass"
        bad = [t for t in want if status.get(t) != "pass"]
    print("baseline: %d of %d stable tests pass" % (len(want) - len(bad), len(want)))
    for t in bad[:40]:
        print("  NOT PASSING:", t, status.get(t, "missing"))
    # go test -mod=mod may touch go.sum; report if the tree got dirty
    return 1 if bad else 0


if __name__ == "__main__":
    sys.exit(main())
