#!/usr/bin/env python3
"""Sensitivity testing: apply hand-made mutants (from /verif/mutants.jsonl) to /repo one at a time,
run the baseline and the property's check, restore the file.

  tools/mut.py list
  tools/mut.py run <mutant-id>... [--no-baseline] [--tier quick]
  tools/mut.py run --property C18

A mutant is {id, property, file, old, new, note}. `old` must occur exactly once in `file`.
Results are appended to /verif/mutants_results.jsonl."""
import argparse, json, os, subprocess, sys, time

import shutil, tempfile
VERIF = os.path.dirname(os.path.dirname(os.path.abspath(__file__)))
SRC = "/repo"
REPO = None  # private copy of /repo's working tree: mutants never touch /repo itself


def private_copy():
    global REPO
    REPO = tempfile.mkdtemp(prefix="verif-mutrepo-")
    subprocess.run(["rsync", "-a", "--exclude", ".git", SRC + "/", REPO + "/"], check=True)
    os.environ["VERIF_REPO"] = REPO


def load():
    out = []
    for line in open(os.path.join(VERIF, "mutants.jsonl")):
        line = line.strip()
        if line and not line.startswith("#"):
            out.append(json.loads(line))
    return out


def main():
    ap = argparse.ArgumentParser()
    ap.add_argument("cmd")
    ap.add_argument("ids", nargs="*")
    ap.add_argument("--property")
    ap.add_argument("--no-baseline", action="store_true")
    ap.add_argument("--tier", default="quick")
    a = ap.parse_args()
    ms = load()
    if a.cmd == "list":
        for m in ms:
            print(m["id"], m["property"], m["file"], "-", m.get("note", ""))
        return 0
    private_copy()
    sel = [m for m in ms if m["id"] in a.ids or (a.property and a.property in m["property"].split(","))]
    for m in sel:
        path = os.path.join(REPO, m["file"])
        src = open(path).read()
        if src.count(m["old"]) != 1:
            print("MUTANT %s: pattern occurs %d times in %s - skipped" % (m["id"], src.count(m["old"]), m["file"]))
            continue
        res = dict(id=m["id"], property=m["property"], at=time.strftime("%Y-%m-%dT%H:%M:%S"))
        try:
            open(path, "w").write(src.replace(m["old"], m["new"]))
            if not a.no_baseline:
                p = subprocess.run([os.path.join(VERIF, "tools", "baseline.py")], stdout=subprocess.PIPE, text=True)
                res["baseline"] = "pass" if p.returncode == 0 else "FAIL"
                res["baseline_out"] = p.stdout.strip().splitlines()[:3]
            for prop in m["property"].split(","):
                t0 = time.time()
                p = subprocess.run([os.path.join(VERIF, "check"), prop, "--tier", a.tier], stdout=subprocess.PIPE, stderr=subprocess.STDOUT, text=True)
                viol = [l for l in p.stdout.splitlines() if l.startswith("VIOLATION")]
                msg = [l for l in p.stdout.splitlines() if l.startswith("violation:")]
                res["check_" + prop] = dict(rc=p.returncode, detected=bool(viol) and p.returncode == 1, wall=round(time.time() - t0, 1),
                                            msg=(msg[0][:300] if msg else p.stdout[-300:] if p.returncode not in (0, 1) else ""))
        finally:
            open(path, "w").write(src)
        print(json.dumps(res))
        with open(os.path.join(VERIF, "mutants_results.jsonl"), "a") as f:
            f.write(json.dumps(res) + "\n")
    shutil.rmtree(REPO, ignore_errors=True)
    return 0


if __name__ == "__main__":
    sys.exit(main())
