"""Per-property configuration of the driver: which harness package/test decides the property,
case counts per tier, evidence texts."""


def P(part, pkg, test, quick, thorough, **kw):
    d = dict(part=part, pkg=pkg, test=test, quick=quick, thorough=thorough)
    d.update(kw)
    return d


CHECKS = {}

CHECKS["C18"] = dict(
    level="exploration",
    rule=("part 'exhaustive': every subset of {1..12} as a version list x every probe 0..13 x every horizon 0..13 "
          "(one case = one subset; non-trivial = at least 3 versions, so probes strictly inside the list are exercised); "
          "part 'seq': rapid-generated initial lists (0..5000 versions, gaps up to 2^20) followed by random "
          "push/pop-front/pop-back/collect/probe/latest interleavings (non-trivial = some probe fell strictly inside a list of >= 3 versions). "
          "Oracle: linear scan over a plain slice. distinct = distinct case values (sha256 of the JSON case)."),
    assumptions=["version numbers handed to one per-key list are strictly increasing and non-zero (they come from one atomic counter)",
                 "horizon == an existing version number is excluded from the 'lookups unchanged' clause only (horizons and versions never coincide in fs_db)"],
    parts=[
        P("exhaustive", "unit", "TestC18Exhaustive", dict(checks=1, shards=1, timeout=300), dict(checks=1, shards=1, timeout=300), rapid=False),
        P("seq", "unit", "TestC18Seq", dict(checks=2000, shards=4, timeout=600), dict(checks=200000, shards=16, timeout=3000)),
    ],
)

CHECKS["C19"] = dict(
    level="exploration",
    rule=("part 'round': 1-6 rapid-generated records (key = arbitrary bytes 0..4096 incl. empty, canonical UUIDs incl. nil/max, seq from a boundary set or any u64) "
          "-> file repository Set over a recording key-value fake -> stored bytes compared with an independent reference encoder "
          "(8-byte LE seq | 16-byte tx id | 16-byte content id | raw key, Badger key file/<content id>) -> GetAll -> records compared; "
          "non-trivial = some key contains a byte >= 0x80 or NUL. part 'bytes': arbitrary byte strings -> GetAll must not panic, must reject < 40 bytes, "
          "must equal the reference decoder otherwise; non-trivial = length within 36..44 or below 40. part 'lengths': every length 0..80 x 3 fills. "
          "part 'golden': 4 hand-written vectors of the release layout, decoded and re-encoded. part 'fixture' (engine seq): a database directory written by the pinned revision "
          "is opened by the current tree. thorough adds native go fuzzing of the decoder with the same oracle."),
    assumptions=["transaction and content ids are canonical lower-case UUID strings (every producer in fs_db uses uuid.NewString or the nil UUID)"],
    parts=[
        P("round", "unit", "TestC19Round", dict(checks=5000, shards=4, timeout=600), dict(checks=1000000, shards=16, timeout=3000)),
        P("bytes", "unit", "TestC19Bytes", dict(checks=5000, shards=4, timeout=600), dict(checks=1000000, shards=16, timeout=3000)),
        P("lengths", "unit", "TestC19Lengths", dict(checks=1, shards=1), dict(checks=1, shards=1), rapid=False),
        P("golden", "unit", "TestC19Golden", dict(checks=1, shards=1), dict(checks=1, shards=1), rapid=False),
    ],
)

CHECKS["C20"] = dict(
    level="exploration",
    rule=("part 'parse': per setting (PORT, DB_PATH, DIR_COUNT, ROOT_DIRS, GC_PERIOD, NUM_WORKERS, SEND_DURATION) a state from "
          "{absent, file, env, both, env-empty, env-empty+file, env-malformed, env-malformed+file, file-malformed, file-malformed+env} (malformed only for numeric/duration settings) "
          "and values; the YAML text is rendered by the harness, the environment set with Setenv, then config.ParseConfig is called. "
          "Oracle: env if set and non-empty, else file, else documented default; malformed value in a used position => error; "
          "a malformed file value overridden by a good env value may be an error or the env value. non-trivial = >= 2 different states incl. one where file and env are both involved. "
          "part 'states': all pairs of (setting,state) quick / all combinations of states over the seven settings thorough (exhaustive: one fixed value per state). "
          "part 'valid': Storage.Valid over path x 0-3 roots x limits around 100 and u64 extremes."),
    assumptions=["only unambiguously malformed values are generated (non-numeric text, negative for the unsigned limit, garbage durations); YAML nulls, floats for ints and unit-less durations are library-defined and not generated",
                 "the process environment is private to the check process; cases run one at a time per process"],
    exhaustive_when_parts=None,
    parts=[
        P("parse", "unit", "TestC20Parse", dict(checks=3000, shards=4, timeout=600), dict(checks=400000, shards=16, timeout=3000)),
        P("states", "unit", "TestC20States", dict(checks=1, shards=4, split=False, timeout=600), dict(checks=1, shards=16, split=False, timeout=3000), rapid=False),
        P("valid", "unit", "TestC20Valid", dict(checks=2000, shards=1, timeout=600), dict(checks=200000, shards=4, timeout=3000)),
    ],
)
