"""Per-property configuration of the driver: which harness package/test decides the property,
case counts per tier, evidence texts."""


def P(part, pkg, test, quick, thorough, **kw):
    d = dict(part=part, pkg=pkg, test=test, quick=quick, thorough=thorough)
    d.update(kw)
    return d


CHECKS = {}

CHECKS["C18"] = dict(
    level="exploration",
    rule=("part 'exhaustive': every subset of {1..12} as a version list x every probe 0..13 x every horizon 0..13 "
          "(one case = one subset; non-trivial = at least 3 versions, so probes strictly inside the list are exercised); "
          "part 'seq': rapid-generated initial lists (0..5000 versions, gaps up to 2^20) followed by random "
          "push/pop-front/pop-back/collect/probe/latest interleavings (non-trivial = some probe fell strictly inside a list of >= 3 versions). "
          "Oracle: linear scan over a plain slice. distinct = distinct case values (sha256 of the JSON case)."),
    assumptions=["version numbers handed to one per-key list are strictly increasing and non-zero (they come from one atomic counter)",
                 "horizon == an existing version number is excluded from the 'lookups unchanged' clause only (horizons and versions never coincide in fs_db)"],
    parts=[
        P("exhaustive", "unit", "TestC18Exhaustive", dict(checks=1, shards=1, timeout=300), dict(checks=1, shards=1, timeout=300), rapid=False),
        P("seq", "unit", "TestC18Seq", dict(checks=32000, shards=16, timeout=600), dict(checks=200000, shards=16, timeout=3000)),
    ],
)

CHECKS["C19"] = dict(
    level="exploration",
    rule=("part 'round': 1-6 rapid-generated records (key = arbitrary bytes 0..4096 incl. empty, canonical UUIDs incl. nil/max, seq from a boundary set or any u64) "
          "-> file repository Set over a recording key-value fake -> stored bytes compared with an independent reference encoder "
          "(8-byte LE seq | 16-byte tx id | 16-byte content id | raw key, Badger key file/<content id>) -> GetAll -> records compared; "
          "non-trivial = some key contains a byte >= 0x80 or NUL. part 'bytes': arbitrary byte strings -> GetAll must not panic, must reject < 40 bytes, "
          "must equal the reference decoder otherwise; non-trivial = length within 36..44 or below 40. part 'lengths': every length 0..80 x 3 fills. "
          "part 'golden': 4 hand-written vectors of the release layout, decoded and re-encoded. part 'fixture' (engine seq): a database directory written by the pinned revision "
          "is opened by the current tree. thorough adds native go fuzzing of the decoder with the same oracle."),
    assumptions=["transaction and content ids are canonical lower-case UUID strings (every producer in fs_db uses uuid.NewString or the nil UUID)"],
    parts=[
        P("round", "unit", "TestC19Round", dict(checks=64000, shards=16, timeout=600), dict(checks=1000000, shards=16, timeout=3000)),
        P("bytes", "unit", "TestC19Bytes", dict(checks=64000, shards=16, timeout=600), dict(checks=1000000, shards=16, timeout=3000)),
        P("lengths", "unit", "TestC19Lengths", dict(checks=1, shards=1), dict(checks=1, shards=1), rapid=False),
        P("golden", "unit", "TestC19Golden", dict(checks=1, shards=1), dict(checks=1, shards=1), rapid=False),
        P("fixture", "seq", "TestC19Fixture", dict(checks=1, shards=1), dict(checks=1, shards=1), rapid=False),
        P("fuzz", "unit", "FuzzC19Decode", None, dict(fuzztime="180s", timeout=900), rapid=False, fuzz=True),
    ],
)

CHECKS["C20"] = dict(
    level="exploration",
    rule=("part 'parse': per setting (PORT, DB_PATH, DIR_COUNT, ROOT_DIRS, GC_PERIOD, NUM_WORKERS, SEND_DURATION) a state from "
          "{absent, file, env, both, env-empty, env-empty+file, env-malformed, env-malformed+file, file-malformed, file-malformed+env} (malformed only for numeric/duration settings) "
          "and values; the YAML text is rendered by the harness, the environment set with Setenv, then config.ParseConfig is called. "
          "Oracle: env if set and non-empty, else file, else documented default; malformed value in a used position => error; "
          "a malformed file value overridden by a good env value may be an error or the env value. non-trivial = >= 2 different states incl. one where file and env are both involved. "
          "part 'states': all pairs of (setting,state) quick / all combinations of states over the seven settings thorough (exhaustive: one fixed value per state). "
          "part 'valid': Storage.Valid over path x 0-3 roots x limits around 100 and u64 extremes."),
    assumptions=["only unambiguously malformed values are generated (non-numeric text, negative for the unsigned limit, garbage durations); YAML nulls, floats for ints and unit-less durations are library-defined and not generated",
                 "the process environment is private to the check process; cases run one at a time per process"],
    exhaustive_when_parts=None,
    parts=[
        P("parse", "unit", "TestC20Parse", dict(checks=48000, shards=16, timeout=600), dict(checks=400000, shards=16, timeout=3000), env={"GOMAXPROCS": "3"}),
        P("states", "unit", "TestC20States", dict(checks=1, shards=4, split=False, timeout=600), dict(checks=1, shards=16, split=False, timeout=3000), rapid=False, env={"GOMAXPROCS": "3"}),
        P("valid", "unit", "TestC20Valid", dict(checks=32000, shards=16, timeout=600), dict(checks=200000, shards=4, timeout=3000), env={"GOMAXPROCS": "3"}),
    ],
)

CHECKS["C01"] = dict(
    level="exploration",
    rule=("rapid-generated autocommit histories of 1-40 Set/SetReader(short reads)/Create+Write*(incl. empty writes)+Close/Delete/Get/GetReader/GetKeys calls over 1-4 keys "
          "(colliding short keys, exotic valid UTF-8, 256-1024-rune keys, the empty key for Set/Get, a never-written key) with content lengths biased to 0,1,2047-2049,4095-4097,32767-32769,65535-65537 and up to 100 KiB; "
          "against a map model, with Get/GetReader of every key and GetKeys compared after every step, on a fresh Badger + file tree per case. "
          "non-trivial = the history overwrites or deletes-and-recreates a key AND writes a content longer than 2048 bytes. distinct = distinct case values."),
    assumptions=["keys are valid UTF-8; Delete of the empty key is unspecified and not generated",
                 "background cleanup jobs run on the real worker pool concurrently with the next steps (they must never change reads)"],
    parts=[
        P("seq", "seq", "TestC01", dict(checks=1920, shards=16, timeout=900), dict(checks=40000, shards=16, timeout=3000)),
    ],
)

_E1_ASSUME = ["one goroutine issues all client calls; only fs_db's own background cleanup runs concurrently (it must never change reads)",
              "error classes are compared with errors.Is against the exported sentinels",
              "writes through ended transaction handles are not generated here (known finding C13-late-write-accepted is examined under C13 only)"]

CHECKS["C02"] = dict(
    level="exploration",
    rule=("rapid-generated sequential histories of 5-60 steps over up to 6 simultaneously open transactions (levels RU/RC/RR/SER and Begin() without argument), 3-5 keys, "
          "ops Begin/Set/Delete/Get/GetKeys/Commit/Rollback by any open transaction or autocommit, synchronous collector runs at any position, a fifth of the cases concentrating writes on one key (many versions). "
          "Oracle: MVCC reference model (harness/model); after EVERY step every open transaction and the autocommit client read every key and GetKeys and are compared. "
          "non-trivial = at least two different levels were open simultaneously AND a collector step ran while a snapshot (RR/SER) transaction was open that was already >= 2 committed versions of some key behind."),
    assumptions=_E1_ASSUME + ["ReadUncommitted: where a commit re-sequenced an older write behind a later uncommitted one, both candidates are accepted (statement is ambiguous there)"],
    parts=[P("seq", "seq", "TestC02", dict(checks=2400, shards=16, timeout=900), dict(checks=60000, shards=16, timeout=3000))],
)

CHECKS["C03"] = dict(
    level="exploration",
    rule=("rapid-generated commit-heavy sequential histories (5-50 steps, 2-4 keys, overlapping write sets with several writes per key, autocommit writes and deletes as conflict sources, rollbacks, empty commits). "
          "Oracle: reference model - Commit error class must be ErrTxSerialization iff (snapshot level and some written key has a newer committed version), never for RU/RC; after every step autocommit Get of every key and GetKeys equal the model "
          "(all keys of a commit switch together, nothing else changes). non-trivial = a predicted conflict on exactly one of >= 2 written keys, or a successful commit of >= 2 keys in a history with >= 2 commits."),
    assumptions=_E1_ASSUME,
    parts=[P("seq", "seq", "TestC03", dict(checks=2400, shards=16, timeout=900), dict(checks=60000, shards=16, timeout=3000))],
)

CHECKS["C09"] = dict(
    level="exploration",
    rule=("C02-style histories with the collector either sprinkled in or run after EVERY step (half of the cases; sometimes twice in a row, also before the first op and right after Begin). "
          "Oracle 1: reference model with full read-back by every actor immediately before and after each collector run and after every other step (contents are read completely). "
          "Oracle 2 (metamorphic): the same program with all collector steps removed yields the identical observation log. "
          "non-trivial = some collector run actually removed >= 1 content file (hook trace) while >= 1 transaction was open."),
    assumptions=_E1_ASSUME,
    parts=[P("seq", "seq", "TestC09", dict(checks=1920, shards=16, timeout=900), dict(checks=40000, shards=16, timeout=3000))],
)

CHECKS["C13"] = dict(
    level="exploration",
    rule=("C02-style histories in which ~35% of the operations are issued through handles of ENDED transactions (committed, rolled back, commit-failed, vanished at reopen) or through handles naming a transaction id that never existed; "
          "every op kind (Get, GetReader, GetKeys, Set, SetReader, Create+Close, Delete, Commit, Rollback); observers at all four levels stay open; a restart ends every history. "
          "Oracle: late op => ErrTxNotFound (Rollback => nil); full read-back of every observer after every step equals the reference model (which ignores late ops); state after restart equals the model. "
          "non-trivial = >= 1 late write was issued while a ReadUncommitted observer was open."),
    assumptions=_E1_ASSUME[:2] + ["known finding C13-late-write-accepted (writes through ended handles return nil and leak to ReadUncommitted readers): while it is listed as open, exactly that behaviour is excused and counted; everything else about late ops stays a violation"],
    parts=[P("seq", "seq", "TestC13", dict(checks=1920, shards=16, timeout=900), dict(checks=40000, shards=16, timeout=3000))],
)

CHECKS["C14"] = dict(
    level="exploration",
    rule=("fault-free rapid-generated histories of 5-80 steps (autocommit and transactional writes, deletes, multi-write transactions, commits, conflict-aborted commits, rollbacks, occasional collector runs) on 1-2 roots; then one of three endings: "
          "(0) end all transactions, let background deletions drain, one collector pass; (1) end all transactions and Close at once with cleanup possibly pending, reopen, collector pass; (2) Close with transactions still open, reopen, collector pass. "
          "Oracle: walk of the roots - the multiset of regular-file contents (sha256) equals exactly one file per key the reference model says is readable; polled until equal, verdict only after the tree was stable for 3 s (a leak never goes away). "
          "non-trivial = the history contained an autocommit overwrite, a delete, a rollback, a conflict-aborted commit and a write superseded inside its transaction."),
    assumptions=_E1_ASSUME + ["quiescence is detected by polling; the worker pool is the real one"],
    parts=[P("seq", "seq", "TestC14", dict(checks=1280, shards=16, timeout=900), dict(checks=24000, shards=16, timeout=3000))],
)

CHECKS["C17"] = dict(
    level="exploration",
    rule=("rapid-generated sequential histories of 2-14 steps over bursts of 30-130 small writes, deletion of whole bursts followed by a collector run, collector runs, reopen, single writes/deletes; 1-3 roots; configured directory limit from {0,1,99,100,101,150} (inline client clamps to >= 100); in a third of the cases the roots are not empty when the database is first opened (a file, a directory with a file in it and an empty directory that are not fs_db's: they must stay exactly as they are and never receive content). "
          "Oracle: a walk of the roots after every step (and every 16 writes inside a burst): every entry of a root is a UUID-named directory, every content file sits directly inside one, after a successful write every root has >= 1 directory, no directory exceeds max(limit,100) entries; "
          "after a burst deletion a directory that once reached the limit and regained room must receive one of the next 64*k writes (k = number of directories; miss probability < 2e-28). "
          "non-trivial = some directory reached the limit and a root ended up with >= 2 directories (rotation)."),
    assumptions=_E1_ASSUME + ["directory choice is a uniform shuffle over the active directories (math/rand/v2 PCG seeded by fs_db); the only probabilistic assertion is the reuse probe, bound stated in the rule"],
    parts=[P("seq", "seq", "TestC17", dict(checks=768, shards=16, timeout=900), dict(checks=6000, shards=16, timeout=3000))],
)

CHECKS["C04"] = dict(
    level="fault_enumeration",
    rule=("rapid-generated workloads of 3-15 steps (autocommit Set/Delete, Begin, transactional writes, multi-key Commit, Rollback, collector runs, overwrites so the cleaner has work; 1-2 roots) run in a child process; "
          "a hook counts persistent mutation points (file create/write/close/remove, mkdir, Badger set/delete/transaction before and after) across all goroutines and the child SIGKILLs itself at the n-th: EVERY n from 1 to the count of the uncrashed run (+2) is enumerated per workload; "
          "for a sample of crash points every crash index inside the recovery open is enumerated on copies of the crashed directory; and for every step of the workload the child is killed the moment that step has been acknowledged (whatever is still on its way in the background, the step is in effect). "
          "Oracle: the parent knows the acknowledged prefix and the at most one in-flight step from the pipe; after a clean reopen GetKeys/Get of all keys must equal the model after the prefix, or after prefix + in-flight step (autocommit write or Commit: all keys together or none); every listed key readable and complete; a second reopen gives the same state. "
          "Sets/Deletes inside a running Badger transaction are mutation points too (nothing of the transaction may be visible after a kill there); half of the workloads contain an 'overtaken commit' fragment (a ReadUncommitted/ReadCommitted transaction writes, somebody commits a newer value, the transaction commits). "
          "part 'bulk': one transaction writes 40-600 fresh keys with names of 20-40 KB, so that its version records approach or exceed what one Badger transaction holds (about 10 MB; fs_db then refuses the Commit as a whole, which the child acknowledges as failed); crash points are sampled: 6-10 inside the Commit plus as many over the rest of the run. "
          "part 'timed' (thorough tier only): the same workloads, but the parent kills the child from outside at 6-14 generated moments (thousandths of the span between 'database opened' and the last acknowledgement of the uncrashed run), so the kill lands anywhere - inside a Badger call, inside a file write, between two instructions - not only at hook points; same oracle; a failure is saved as a snapshot of the crashed directory (restored at its original path by the replay, because fs_db records absolute paths) together with what the child had acknowledged. "
          "one evaluation = one workload (counters give the number of child runs); non-trivial = some crash landed after the first step started and before the last was acknowledged."),
    assumptions=["process kill only: the page cache survives (power loss / fsync ordering is outside the statement and cannot be injected here)",
                 "crash positions are counted globally, so background cleaner mutations are crash points too; their interleaving is not controlled, the replay re-runs the same workload and index",
                 "part 'timed' depends on the real scheduler and clock for WHERE the kill lands (it can only add detections; the saved directory makes a failure re-checkable)"],
    parts=[P("crash", "seq", "TestC04", dict(checks=16, shards=8, timeout=900, shrinktime="30s"), dict(checks=320, shards=16, timeout=3400, shrinktime="60s")),
           P("timed", "seq", "TestC04Timed", None, dict(checks=640, shards=16, timeout=3400, shrinktime="1s")),
           P("bulk", "seq", "TestC04Bulk", dict(checks=2, shards=2, timeout=900, shrinktime="1s"), dict(checks=16, shards=16, timeout=3400, shrinktime="1s"))],
)

_E4_DIRS = ["internal/model/core", "internal/model/sequence", "internal/usecase/core", "internal/usecase/store", "internal/usecase/transaction",
            "internal/usecase/cleaner", "internal/usecase/dir", "internal/repository/dir", "internal/repository/transaction", "internal/repository/content",
            "internal/repository/file", "internal/repository/content_file", "internal/utils/async", "internal/utils/wpool", "internal/db/badger", "pkg/inline/db", "internal/di"]

CHECKS["C05"] = dict(
    level="exploration",
    rule=("rapid-generated histories of 2-4 segments of transactional/autocommit operations separated by Close/Open in the same process ('reopen') or by a fresh OS process ('newproc', half of the cases), "
          "with 0-2 unrelated databases opened (and written) in the same process before the database under test and kept open; full read-back by every actor after every step and right after every open. "
          "Oracle: reference model across reopen (committed state identical, open transactions gone, every later write supersedes earlier data immediately and after every later reopen). "
          "non-trivial = an autocommit write after a reopen that is read after a further reopen, with >= 1 other database in the process. "
          "parts 'seqenum'/'seqrand': the process-wide sequence counter (real source, rewritten to the owned scheduler): 2-4 actors of sequence.Set(M) (what Load does when an instance opens) and sequence.Next() calls (what every write, Begin and collector run of any instance does) - every schedule with <= 2 (quick) / <= 4 (thorough) forced preemptions of 5 catalogue programs, and random programs x random-walk schedules. "
          "Oracle: a number drawn after Set(M) has returned is above M; numbers are never handed out twice and grow along real time."),
    assumptions=_E1_ASSUME,
    parts=[P("seq", "seq", "TestC05", dict(checks=480, shards=16, timeout=900), dict(checks=10000, shards=16, timeout=3000)),
           P("seqenum", "det", "TestC05SeqEnum", dict(checks=1, shards=4, split=False, timeout=600, env={"VERIF_SEQ_BOUND": "2"}), dict(checks=1, shards=16, split=False, timeout=3000, env={"VERIF_SEQ_BOUND": "4"}), rapid=False, rewrite=_E4_DIRS),
           P("seqrand", "det", "TestC05SeqRand", dict(checks=4000, shards=4, timeout=600), dict(checks=400000, shards=16, timeout=3000), rewrite=_E4_DIRS)],
)

CHECKS["C10"] = dict(
    level="fault_enumeration",
    rule=("one write per case: content length (0,1,100,2047-2049,4096,5000,32767-32769,65536,65537,100000 or any 0..70000) x previous state of the key (absent/value/deleted) x client "
          "(inline Set/SetReader/Create, external Set/SetReader/Create against an in-process server, the server's SetFile handler driven through a fake stream) x optional enclosing ReadCommitted transaction x fault: "
          "source reader error at byte p, context cancelled after p bytes (the source then stalls 0-3 ms), the connection to the server broken after p bytes (gRPC SetReader/Create: the server drops all its connections; it is then started again on the same directories and a new client reads), File.Write returning ENOSPC at byte p with r in {0,1,2,100,2047,2048,32767,all} bytes of the failing chunk already written on all or a proper subset of 1-3 roots "
          "with per-root reported free space, stream Recv error (Canceled/Unavailable/unexpected EOF) at message i, a transient I/O error (EIO, once) at the 1st-3rd directory creation / directory listing / content-file creation / Badger record write the operation performs (for directory creation the write goes into an empty database, the only moment directories are created), or no fault; p from {0,1,2047,2048,2049,32767,32768,32769,L-1,L,L+1} or anywhere. "
          "Oracle: returned error => an independent reader (same client and a second connection) reads the previous value/ErrNotFound and the unrelated key is unchanged; nil => reads exactly the source bytes; "
          "incomplete source (reader/Recv error, broken connection) => must be an error; ENOSPC on all roots => ErrNoFreeSpace; ENOSPC where a healthy root reports more free space than every failing root => must succeed. "
          "Afterwards, for every case: one more write of the key without any fault must succeed and be what every reader then reads (a failed write leaves nothing behind that gets in the way of the next one; every root still offers a directory). "
          "non-trivial = the injected fault actually fired (hook/reader counter)."),
    assumptions=["the server side of an aborted upload finishes asynchronously: the check waits until no instrumented step happened for 40 ms before reading (can only miss, never invent a trace)",
                 "ENOSPC is injected at the File.Write wrapper (hook), free space through the disk-usage hook; all roots of the sandbox share one real filesystem"],
    parts=[P("faults", "seq", "TestC10", dict(checks=8000, shards=16, timeout=900), dict(checks=100000, shards=16, timeout=3400))],
)

CHECKS["C11"] = dict(
    level="exploration",
    rule=("part 'ext': the C01/C02/C03/C13 history generators (autocommit content-heavy incl. the empty key and lengths 0,1,2047-2049,4095-4097,6000,100 KiB through Set/SetReader/Create; transactional at all four levels; operations through ended/unknown transactions) "
          "executed through pkg/external.Open against internal/app serving on a loopback listener in the same process; after every step every actor's Get/GetReader of every key and GetKeys are compared with the SAME reference model the inline client is held to "
          "(values byte-exact, error class by errors.Is over the exported sentinels). non-trivial = the history used a transaction and some call returned an error. "
          "part 'binkey': a direct differential run for keys that are not valid UTF-8 and for the empty key (1-3 keys, mostly invalid UTF-8, drawn from hostile constants and random bytes, now and then the empty key; 1-10 operations Set/SetReader/Create/Get/GetReader/Delete/GetKeys, optionally through one transaction): the same program on a fresh inline database and through the gRPC client against a fresh server, results compared call by call (error class, bytes, key list); non-trivial = a call named a non-UTF-8 key or the empty key. The only excused difference is the listed known finding (the gRPC marshaller rejects such keys). "
          "part 'filediff': the life of one file handle from Create, again as a direct differential (0-6 writes of sizes 0 ... 3 MiB through a re-used buffer; the storing side succeeds, rejects the empty key, or runs out of space on every root after 1 ... 100 000 bytes; 1-3 Close calls; optionally inside a transaction, optionally over a previous value): compared are the class of every Close, that a Write which reported a failure reported the class the inline Close reports, the Commit, and what the key reads afterwards - NOT the class of individual Writes (whether a Write already sees the storing side's failure is a matter of buffering on both sides); non-trivial = the storing side failed or the file was closed more than once. "
          "part 'errors': error values built from every exported sentinel under random fmt.Errorf(%w) chains / errors.Join with foreign errors -> adapter Error -> gRPC status -> adapter ClientError; class(client(server(e))) must equal class(e), non-sentinel errors must become ErrUnknown."),
    assumptions=_E1_ASSUME[:2] + ["differential via the shared model: both clients are compared with the same reference model rather than with each other (the inline runs are C01-C03, C13)",
                                  "known finding C13-late-write-accepted applies here too (writes through ended handles)",
                                  "known finding C11-non-utf8-key: after the first excused call the two databases differ, so that case's comparison stops there"],
    parts=[P("ext", "seq", "TestC11", dict(checks=1280, shards=16, timeout=900), dict(checks=20000, shards=16, timeout=3400)),
           P("binkey", "seq", "TestC11BinKey", dict(checks=640, shards=16, timeout=900), dict(checks=8000, shards=16, timeout=3400)),
           P("filediff", "seq", "TestC11FileDiff", dict(checks=480, shards=16, timeout=900), dict(checks=12000, shards=16, timeout=3400)),
           P("errors", "unit", "TestC11Errors", dict(checks=60000, shards=16, timeout=600), dict(checks=1000000, shards=16, timeout=3000))],
)

CHECKS["C15"] = dict(
    level="exploration",
    rule=("rapid-generated concurrent client programs: 3-8 goroutines x 2-14 operations each (autocommit and own-transaction Set/SetReader/Create/Delete/Get/GetReader/GetKeys, Begin at any level, Commit, Rollback, explicit collector runs) over one DB handle and 1-3 shared keys, "
          "each transaction owned by one goroutine, background collector period 1 ms; profiles cold (all goroutines released together right after Open, so first uses of lazily built components coincide) and warm, inline and (a quarter of the cases) through the in-process gRPC server. "
          "Each program runs in a fresh child process of a -race build on the unmodified synchronisation primitives with GORACE=halt_on_error=0; oracle = the Go race detector: every DATA RACE report is a violation, keyed by the unordered pair of top-most fs_db function names of the two accesses; a crash or panic of the program is a violation too. "
          "non-trivial = >= 3 goroutines issuing >= 3 different operation kinds."),
    assumptions=["the race detector reports only races the executed schedule exposes through happens-before: a miss is possible, an invented race is not",
                 "known findings are listed per function pair; a race between any other pair is a violation"],
    parts=[P("race", "seq", "TestC15", dict(checks=96, shards=16, timeout=900, shrinktime="15s"), dict(checks=8000, shards=16, timeout=3400, shrinktime="30s"), race=True)],
)

_E4_ASSUME = ["fs_db's sync / sync-atomic / go statements / blocking selects / time.After in the listed packages are redirected by the source rewriter (tools/rewrite) to the cooperative scheduler harness/detsync; everything else (Badger, files, the omap registry) runs unmodified and is atomic from the scheduler's point of view",
              "scheduling points: every lock/unlock/atomic/cond/waitgroup/channel-select operation and every verif hook point; one managed goroutine runs at a time; the schedule (forced preemptions or a random-walk tape) is part of the generated case",
              "a fresh database (heavy: Badger + file tree; light: in-memory key-value provider + file tree) per schedule",
              "known findings C06-unpinned-read and C08-begin-vs-collector are excused by their exact signatures over the hook trace (the reads they name become wildcards in the linearizability search); see KNOWN_FINDINGS.jsonl"]

CHECKS["C07"] = dict(
    level="exploration",
    rule=("part 'enum': a catalogue of 7 tiny programs (2-3 snapshot transactions begun and written in a sequential prologue, intersecting write sets, one variant against an autocommit writer) whose Commit calls run concurrently; the default schedule plus EVERY single forced preemption of the concurrent phase is executed. "
          "part 'rand': rapid-generated programs of the same family (1-3 keys, 2-3 transactions of levels RR/SER/RC, optional late write, optional autocommit writer) x generated schedules (0-4 forced preemptions or a random-walk tape with switch probability 2-30%). "
          "Oracle: no deadlock/panic, and the call/return history (commits + an epilogue reading every key) has a linearization accepted by the reference model - under it two intersecting snapshot commits cannot both succeed. "
          "parts 'lenum'/'lrand' repeat this on the LIGHT backend (the same use cases, repositories and real worker pool wired as pkg/inline/db.New wires them, over an in-memory key-value provider with Badger-like atomic transactions and the same hook points; content files real): ALL schedules with <= 2 forced preemptions (to working goroutines) of the catalogue programs marked deep (3-party programs) in the quick tier and of every catalogue program in the thorough tier, for every rotation of the client list, plus 4 000 / 400 000 generated programs x schedules. "
          "non-trivial = two operations of different clients, one a write/commit, overlapped in logical time."),
    assumptions=_E4_ASSUME,
    parts=[
        P("enum", "det", "TestC07Enum", dict(checks=1, shards=8, split=False, timeout=900), dict(checks=1, shards=16, split=False, timeout=3000), rapid=False, rewrite=_E4_DIRS),
        P("rand", "det", "TestC07Rand", dict(checks=320, shards=8, timeout=900), dict(checks=50000, shards=16, timeout=3400), rewrite=_E4_DIRS),
        P("lenum", "det", "TestC07LightEnum", dict(checks=1, shards=16, split=False, timeout=900, env={"VERIF_LIGHT_BOUND": "2", "VERIF_LIGHT_MAXSTEPS": "0"}), dict(checks=1, shards=16, split=False, timeout=3400, env={"VERIF_LIGHT_BOUND": "2", "VERIF_LIGHT_MAXSTEPS": "400"}), rapid=False, rewrite=_E4_DIRS),
        P("lrand", "det", "TestC07LightRand", dict(checks=4000, shards=8, timeout=900), dict(checks=400000, shards=16, timeout=3400), rewrite=_E4_DIRS),
    ],
)

CHECKS["C08"] = dict(
    level="exploration",
    rule=("part 'enum': a catalogue of 7 tiny programs (a snapshot reader that begins and reads all keys while a 2/3-key commit runs; Begin racing with an overwrite and a collector run; an open reader re-reading while a writer overwrites twice and the collector runs twice; Begin racing with Begin, overwrite and collector) - the default schedule plus EVERY single forced preemption of the concurrent phase. "
          "part 'rand': rapid-generated programs (1-3 keys, 0-2 multi-key committers of any level, 1-2 snapshot readers with optional re-reads and GetKeys, optional autocommit writer, optional collector actor) x generated schedules (0-4 forced preemptions or a random-walk tape). "
          "Oracle: no deadlock/panic; the history has a linearization in which Begin is the snapshot point (a reader seeing part of a commit, or a re-read that changes, has none). non-trivial = operations of different clients overlapped in logical time with a write/commit involved."),
    assumptions=_E4_ASSUME,
    parts=[
        P("enum", "det", "TestC08Enum", dict(checks=1, shards=8, split=False, timeout=900), dict(checks=1, shards=16, split=False, timeout=3000), rapid=False, rewrite=_E4_DIRS),
        P("rand", "det", "TestC08Rand", dict(checks=320, shards=8, timeout=900), dict(checks=50000, shards=16, timeout=3400), rewrite=_E4_DIRS),
        P("lenum", "det", "TestC08LightEnum", dict(checks=1, shards=16, split=False, timeout=900, env={"VERIF_LIGHT_BOUND": "2", "VERIF_LIGHT_MAXSTEPS": "0"}), dict(checks=1, shards=16, split=False, timeout=3400, env={"VERIF_LIGHT_BOUND": "2", "VERIF_LIGHT_MAXSTEPS": "400"}), rapid=False, rewrite=_E4_DIRS),
        P("lrand", "det", "TestC08LightRand", dict(checks=4000, shards=8, timeout=900), dict(checks=400000, shards=16, timeout=3400), rewrite=_E4_DIRS),
    ],
)

CHECKS["C12"] = dict(
    level="exploration",
    rule=("part 'enum': 8 catalogue programs (Create, a fixed sequence of Write sizes, Close: 'abc,empty,def', no write at all, empty write first/last/only, buffer-size writes 2048/1/32768/0/2049, storing fails with no space at byte 1 / after the first chunk) - default schedule plus EVERY single forced preemption between the writer and the asynchronous storing goroutine. "
          "part 'rand': rapid-generated write-size sequences (0-12 writes from {0,1,2047,2048,2049,32767,32768,32769,0..5000}), optional injected store failure, optional second client (another Create on the same key, or a reader) x generated schedules. "
          "Oracle: Close returns (a parked Close with nothing runnable is a deadlock verdict, never a time-out); nil => a later Get yields exactly the concatenation (the write linearizes between Create and Close); error => the key is unchanged; the gRPC variant of the size sequences is covered sequentially by C11's generator. "
          "parts 'rwenum'/'rwrand': the asynchronous read-writer alone, wired exactly as pkg/inline/db/create.go wires it (storing goroutine reading with a 32 KiB buffer, SetError on failure), no database: ALL schedules with <= 2 (quick) / <= 3 (thorough) forced preemptions of 9 write-size programs, plus rapid-generated programs x schedules; oracle: Close returns, nil => received bytes == concatenation, store failure => error of that class. "
          "parts 'lenum'/'lrand' repeat this on the LIGHT backend (the same use cases, repositories and real worker pool wired as pkg/inline/db.New wires them, over an in-memory key-value provider with Badger-like atomic transactions and the same hook points; content files real): ALL schedules with <= 2 forced preemptions (to working goroutines) of the catalogue programs marked deep (3-party programs) in the quick tier and of every catalogue program in the thorough tier, for every rotation of the client list, plus 4 000 / 400 000 generated programs x schedules. "
          "non-trivial = the sequence contains an empty write or the schedule forces >= 1 preemption. "
          "part 'files' (E1, real scheduler, inline binding): groups of 2-6 files open at the same time - more than the database has workers (1-3) - written alternately 700 bytes at a time and closed last-opened-first or first-opened-first, inside and outside transactions; every Close must return (one that has not after 30 s never will) with nil, and each key then reads back as the concatenation of its writes."),
    assumptions=_E4_ASSUME,
    parts=[
        P("enum", "det", "TestC12Enum", dict(checks=1, shards=8, split=False, timeout=900), dict(checks=1, shards=16, split=False, timeout=3000), rapid=False, rewrite=_E4_DIRS),
        P("rand", "det", "TestC12Rand", dict(checks=240, shards=8, timeout=900), dict(checks=20000, shards=16, timeout=3400), rewrite=_E4_DIRS),
        P("rwenum", "det", "TestC12RWEnum", dict(checks=1, shards=8, split=False, timeout=900, env={"VERIF_RW_BOUND": "2"}),
          dict(checks=1, shards=16, split=False, timeout=3400, env={"VERIF_RW_BOUND": "3"}), rapid=False, rewrite=_E4_DIRS),
        P("files", "seq", "TestC12Files", dict(checks=320, shards=16, timeout=900), dict(checks=8000, shards=16, timeout=3400)),
        P("rwrand", "det", "TestC12RWRand", dict(checks=4000, shards=8, timeout=900), dict(checks=400000, shards=16, timeout=3400), rewrite=_E4_DIRS),
    ],
)

_E4_POOL_DIRS = ["internal/model/core", "internal/utils/wpool"]

CHECKS["C16"] = dict(
    level="exploration",
    rule=("the REAL worker pool source (rewritten to the owned scheduler: its goroutines, three mutexes, two wait groups, channel selects and the SendDuration timer are all scheduler decisions). "
          "part 'enum': 12 catalogue programs (1-2 workers; senders of no-op jobs, gate jobs that keep workers busy until the harness opens the gate, jobs waiting for their context; callers whose own context is cancelled before Send or right after it returned; Stop after quiescence, Stop concurrent with senders, Run/Stop/Run cycles, a second generation after a Run/Stop cycle that ended with a busy flusher, Stop||Stop and Send||Run||Stop) - all schedules with <= 1 (quick) / <= 3 (thorough) forced preemptions. "
          "part 'rand': rapid-generated programs (1-3 senders x 1-6 sends, optional concurrent Stop, optional second Run cycle, and an 'any order' profile of arbitrary Run/Stop/Send actors) x random-walk tapes (switch probability 2-30%, timers fireable at any step) or 0-4 forced preemptions. "
          "Oracle: per-job execution counters and logical timestamps - every job handed to Send entirely while the pool was running is executed exactly once by the time the system is quiescent (no further Send, no Stop); never twice; every Send returns although all workers stay gate-blocked (else deadlock verdict); Stop returns only after started jobs finished; no job starts after Stop returned; no panic, no deadlock. "
          "non-trivial = all workers were kept busy by gate jobs and more jobs were sent than the channel holds (deferred path), or (any-order profile) >= 2 Run/Stop calls."),
    assumptions=_E4_ASSUME[:2] + ["quiescence is exact: the harness blocks until no managed goroutine can run and no virtual timer is pending"],
    parts=[
        P("enum", "det", "TestC16Enum", dict(checks=1, shards=8, split=False, timeout=900, env={"VERIF_POOL_BOUND": "1"}),
          dict(checks=1, shards=16, split=False, timeout=3400, env={"VERIF_POOL_BOUND": "3"}), rapid=False, rewrite=_E4_DIRS),
        P("rand", "det", "TestC16Rand", dict(checks=64000, shards=8, timeout=900), dict(checks=4000000, shards=16, timeout=3400), rewrite=_E4_DIRS),
    ],
)

CHECKS["C06"] = dict(
    level="exploration",
    rule=("part 'enum': a catalogue of 12 tiny programs (writer||reader, overwrite||collector||reader, writers of different keys||GetKeys, delete||reader, RC commit||RU reader, rollback||RU reader, commits on different keys, in-transaction overwrite+commit||RU reader||collector, begin/write/commit||begin/write/rollback||writer, three writers, writer||collector||collector, RC read-own-write||writer) - the default schedule plus EVERY single forced preemption of the concurrent phase. "
          "part 'rand': rapid-generated programs of 2-4 clients (autocommit clients, RU/RC transactions each driven by one client, a collector actor; 1-3 shared keys; a sequential prologue creating versions) x generated schedules (0-4 forced preemptions or a random-walk tape; the periodic collector's virtual timer may fire at any step). "
          "Oracle: no deadlock, no panic; the call/return history (with logical timestamps, so real-time order is exact) plus an epilogue reading every key has a linearization accepted by the reference model - a lost or resurrected write, a key reported missing while it had a value, another key's or a partial content have none. "
          "parts 'lenum'/'lrand' repeat this on the LIGHT backend (the same use cases, repositories and real worker pool wired as pkg/inline/db.New wires them, over an in-memory key-value provider with Badger-like atomic transactions and the same hook points; content files real): ALL schedules with <= 2 forced preemptions (to working goroutines) of the catalogue programs marked deep (3-party programs) in the quick tier and of every catalogue program in the thorough tier, for every rotation of the client list, plus 4 000 / 400 000 generated programs x schedules. "
          "non-trivial = operations of different clients overlapped in logical time with a write/commit involved."),
    assumptions=_E4_ASSUME + ["known finding C06-unpinned-read: a Get/GetKeys whose resolved content was removed by the collector/cleaner inside the read's interval is excused (the read's result becomes a wildcard in the linearizability search) - only when the hook trace shows exactly that removal"],
    parts=[
        P("enum", "det", "TestC06Enum", dict(checks=1, shards=8, split=False, timeout=900), dict(checks=1, shards=16, split=False, timeout=3000), rapid=False, rewrite=_E4_DIRS),
        P("rand", "det", "TestC06Rand", dict(checks=400, shards=8, timeout=900), dict(checks=40000, shards=16, timeout=3400), rewrite=_E4_DIRS),
        P("lenum", "det", "TestC06LightEnum", dict(checks=1, shards=16, split=False, timeout=900, env={"VERIF_LIGHT_BOUND": "2", "VERIF_LIGHT_MAXSTEPS": "0"}), dict(checks=1, shards=16, split=False, timeout=3400, env={"VERIF_LIGHT_BOUND": "2", "VERIF_LIGHT_MAXSTEPS": "400"}), rapid=False, rewrite=_E4_DIRS),
        P("lrand", "det", "TestC06LightRand", dict(checks=4000, shards=8, timeout=900), dict(checks=400000, shards=16, timeout=3400), rewrite=_E4_DIRS),
    ],
)
