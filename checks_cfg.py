"""Per-property configuration of the driver: which harness package/test decides the property,
case counts per tier, evidence texts."""


def P(part, pkg, test, quick, thorough, **kw):
    d = dict(part=part, pkg=pkg, test=test, quick=quick, thorough=thorough)
    d.update(kw)
    return d


CHECKS = {}

CHECKS["C18"] = dict(
    level="exploration",
    rule=("part 'exhaustive': every subset of {1..12} as a version list x every probe 0..13 x every horizon 0..13 "
          "(one case = one subset; non-trivial = at least 3 versions, so probes strictly inside the list are exercised); "
          "part 'seq': rapid-generated initial lists (0..5000 versions, gaps up to 2^20) followed by random "
          "push/pop-front/pop-back/collect/probe/latest interleavings (non-trivial = some probe fell strictly inside a list of >= 3 versions). "
          "Oracle: linear scan over a plain slice. distinct = distinct case values (sha256 of the JSON case)."),
    assumptions=["version numbers handed to one per-key list are strictly increasing and non-zero (they come from one atomic counter)",
                 "horizon == an existing version number is excluded from the 'lookups unchanged' clause only (horizons and versions never coincide in fs_db)"],
    parts=[
        P("exhaustive", "unit", "TestC18Exhaustive", dict(checks=1, shards=1, timeout=300), dict(checks=1, shards=1, timeout=300), rapid=False),
        P("seq", "unit", "TestC18Seq", dict(checks=2000, shards=4, timeout=600), dict(checks=200000, shards=16, timeout=3000)),
    ],
)
