"""Hand-written parts of MANIFEST.json."""

META = dict(
    version=1,
    setup_cmd="./setup.sh",
    hooks=dict(
        guard="verif",
        enable="go build/test -tags verif (the driver ./check copies /repo's working tree, grafts /verif/harness in as internal/verifh and builds with -tags verif)",
        baseline_off_cmd="/verif/tools/baseline.py",
        source_commits=['ee30edd', '14773b2', '3eaecf4', '5ba1df9', '73eb8c3'],
        add_only=True,
    ),
    engines=[
        dict(name="unit", path="harness/unit", serves_properties=["C18", "C19", "C20"],
             kind_free_text="rapid properties and exhaustive small-domain enumerations over pure components, oracle = independent reference implementation"),
        dict(name="seq", path="harness/seq (engine.go, exec.go, model in harness/model)", serves_properties=["C01", "C02", "C03", "C05", "C09", "C11", "C12", "C13", "C14", "C17"],
             kind_free_text="model-based stateful property testing of the assembled stack (real Badger, files, worker pool) through the public client API; inline and external (gRPC) bindings"),
        dict(name="crash", path="harness/seq/crash.go", serves_properties=["C04", "C05"],
             kind_free_text="child process executes a generated workload and SIGKILLs itself at the n-th persistent mutation (hook); parent enumerates n and judges the recovered state"),
        dict(name="faults", path="harness/seq/faults.go", serves_properties=["C10"],
             kind_free_text="fault injection by generated plan: failing/cancelling source readers, ENOSPC (full/partial) at File.Write via hook, per-root free space, failing gRPC stream"),
        dict(name="detsched", path="harness/detsync (scheduler), tools/rewrite (source rewriter), harness/det (programs, linearizability oracle)", serves_properties=["C05", "C06", "C07", "C08", "C12", "C16"],
             kind_free_text="schedule-owning engine: fs_db's sync/atomic/go/select/time.After are redirected to a cooperative scheduler; the schedule (forced preemptions or a random-walk tape) is part of the generated case; small-scope exhaustive enumeration + rapid generation"),
        dict(name="race", path="harness/seq/race.go", serves_properties=["C15"],
             kind_free_text="generated concurrent client programs in a child process of a -race build; the Go race detector is the oracle"),
    ],
    notes=("All checks are property-based tests / fuzzing: generated cases (rapid v1.3.0) against an explicit oracle, shrunk failures saved as JSON replay files under replays/<id>/. "
           "Exit codes: 0 held, 1 + VIOLATION line, 2 inconclusive (infrastructure)."),
)

_ALL = ["C%02d" % i for i in range(1, 21)]
NOT_APPLICABLE = [dict(property_id=p, reason="check not built yet in this revision of /verif (work in progress; planned in DESIGN.md section 4)") for p in _ALL]

def _e1(engine, technique, text, ref, note):
    return dict(engine=engine, technique=technique, level_text=text, design_ref=ref, level_note=note)


_MODEL_NOTE = "trusts the ~300-line reference model harness/model/model.go (naive MVCC: committed version lists never pruned) and the per-step comparison code in harness/seq/engine.go; fs_db's own UUIDs and directory shuffle are not seeded, oracles do not depend on them"

PER_CHECK = {
    "C01": _e1("seq", "model-based stateful property testing (rapid): generated autocommit histories vs a map model, read-back after every step",
               "Generated call histories over boundary-sized contents and exotic keys run against the real assembled inline database; every read is compared with a map model after every step. Exploration: no counterexample among the generated histories.",
               "DESIGN.md section 4, C01", _MODEL_NOTE),
    "C02": _e1("seq", "model-based stateful property testing (rapid): generated multi-transaction histories vs an MVCC reference model, every actor reads everything after every step",
               "Sequential interleavings of up to 6 open transactions of all levels, autocommit writes and collector runs; after every step every open transaction and the autocommit client read every key and GetKeys, compared with the reference model. Exploration.",
               "DESIGN.md section 4, C02", _MODEL_NOTE),
    "C03": _e1("seq", "model-based stateful property testing (rapid): commit-heavy histories with scripted conflict fragments vs the reference model (both directions of the conflict iff)",
               "Commit outcomes (error class) and the committed state after every step are compared with the model, which fails a snapshot commit iff a written key has a newer committed version. Exploration.",
               "DESIGN.md section 4, C03", _MODEL_NOTE),
    "C04": _e1("crash", "fault enumeration under property-based generation: for each rapid-generated workload a child process is SIGKILLed at EVERY persistent mutation point (and inside recovery), recovered state judged against the set of allowed states",
               "Crash points are enumerated exhaustively per workload at hook granularity (file create/write/close/remove, mkdir, Badger set/delete/transaction before+after) plus one kill right after every acknowledgement; workloads are generated; the oracle computes the allowed states from the acknowledged prefix. The thorough tier adds kills from outside at generated moments of the run (not hook-bound). fault_enumeration over generated workloads.",
               "DESIGN.md section 4, C04", "process kill only (page cache survives); hook granularity; " + _MODEL_NOTE),
    "C05": _e1("seq", "model-based stateful property testing (rapid) across Close/Open and across OS processes, with other databases opened in the same process",
               "Histories with reopen in the same process and in fresh child processes (which first open and write other databases) are compared with the model after every step and right after every open. Exploration.",
               "DESIGN.md section 4, C05", _MODEL_NOTE),
    "C09": _e1("seq", "model-based stateful property testing (rapid) with the collector at every position + metamorphic relation (same program without collector steps gives the same observations)",
               "Collector runs are inserted at every position (half of the cases after EVERY step); all actors read everything immediately before and after every run and the two read-backs must be identical (no model in between); additionally the observation log must equal that of the collector-free program; a quarter of the cases also run the database's own collector every millisecond. Exploration.",
               "DESIGN.md section 4, C09", _MODEL_NOTE),
    "C10": _e1("faults", "fault injection driven by property-based generation (rapid): one write x fault kind x position x root subset x client, oracle 'error => old value, success => exact bytes'",
               "Fault positions are drawn from boundary sets and at random over content lengths up to 100 KiB through seven client paths (source errors, cancellation, broken connection, full and partial ENOSPC with per-root and staggered offsets, transient I/O errors at hook points); the oracle reads back through independent clients and, in every case, a fault-free follow-up write must succeed. fault_enumeration over generated fault plans (not every byte position).",
               "DESIGN.md section 4, C10", "hooks at File.Write / disk usage; asynchronous server-side completion is awaited by hook quiescence"),
    "C11": _e1("seq", "differential property testing (rapid): the inline history generators executed through the gRPC client against an in-process server, both clients held to the same reference model",
               "The same generated histories that decide C01-C03/C13 for the inline client run through external.Open against internal/app on a loopback listener (with server restarts, caller metadata, held readers); values byte-exact, error classes via errors.Is; two parts compare the two bindings directly call by call (keys the model does not speak about; the life of a created file), one part sends error values of arbitrary wrapping through the adapters. Exploration.",
               "DESIGN.md section 4, C11", _MODEL_NOTE + "; loopback TCP inside one process"),
    "C13": _e1("seq", "model-based stateful property testing (rapid): histories that keep using ended and never-existing transaction handles, all observers read back after every step, restart at the end",
               "35% of the operations go through ended/unknown handles; their error class and their (non-)effect on every observer and on the restarted database are compared with the model. Exploration; one known finding is excused by an exact signature.",
               "DESIGN.md section 4, C13", _MODEL_NOTE),
    "C14": _e1("seq", "model-based stateful property testing (rapid): fault-free histories, quiescence, directory walk compared with the model's live contents",
               "After a generated history ends (three ending variants incl. Close with work pending) the multiset of files under the roots must equal one file per readable key. Exploration.",
               "DESIGN.md section 4, C14", _MODEL_NOTE + "; quiescence by polling with a stability window"),
    "C15": _e1("race", "property-based generation of concurrent client programs (rapid), each run in a -race child process; oracle = Go race detector (sanitizer), reports keyed by function pair",
               "Generated 3-8 goroutine programs over one handle (inline cold/warm, and through the gRPC server) run on the unmodified primitives under the race detector. Exploration of schedules the Go runtime happens to produce.",
               "DESIGN.md section 4, C15", "the race detector sees only races exposed by the executed schedule"),
    "C06": _e1("detsched", "property-based testing over generated SCHEDULES: concurrent client programs on the real code under a cooperative scheduler (sync rewritten), small-scope exhaustive single preemptions + rapid-generated programs x schedules; oracle = linearizability search against the reference model",
               "The harness owns the scheduler, so an interleaving is a generated, replayable value. Catalogue programs are explored exhaustively at preemption bound 1 (all client rotations); random programs with 0-4 preemptions or random-walk tapes beyond. Exploration: exhaustive only within that small scope.",
               "DESIGN.md sections 2.4 and 4, C06", "trusts harness/detsync (self-tested on known-racy programs), the source rewriter, the reference model and the linearizability search (harness/det/lin.go); Badger/omap/files are atomic from the scheduler's view"),
    "C07": _e1("detsched", "property-based testing over generated schedules (cooperative scheduler): concurrent Commit calls of snapshot transactions with intersecting write sets, exhaustive single preemptions + generated programs x schedules; oracle = linearizability against the reference model",
               "Under the model two intersecting snapshot commits cannot both succeed in any order, so a lost update has no linearization. Exhaustive at preemption bound 1 for the catalogue, random beyond.",
               "DESIGN.md sections 2.4 and 4, C07", "as C06"),
    "C08": _e1("detsched", "property-based testing over generated schedules (cooperative scheduler): snapshot readers vs multi-key committers, writers, Begins and the collector; oracle = linearizability with Begin as the snapshot point",
               "A reader that sees part of a commit, or whose re-read changes, has no linearization. Exhaustive at preemption bound 1 for the catalogue, random beyond.",
               "DESIGN.md sections 2.4 and 4, C08", "as C06"),
    "C12": _e1("detsched", "property-based testing over generated write-size sequences x schedules (cooperative scheduler): API level on the real stack and component level on the read-writer with ALL schedules up to 2-3 forced preemptions",
               "Close returning is decided exactly (a parked Close with nothing runnable is a deadlock verdict); content equality through Get / through the consumer. The component-level part is exhaustive up to the stated preemption bound.",
               "DESIGN.md sections 2.4 and 4, C12", "as C06; the component-level consumer mirrors pkg/inline/db/create.go"),
    "C16": _e1("detsched", "property-based testing over generated Send/Stop/Run programs x schedules on the REAL worker pool source under the cooperative scheduler; oracle = execution counters and logical timestamps",
               "All schedules with <= 1 (quick) / <= 3 (thorough) forced preemptions of the catalogue programs plus up to 10^6 random-walk tapes; quiescence is exact. Exploration.",
               "DESIGN.md sections 2.4 and 4, C16", "trusts harness/detsync and the rewriter; virtual timers over-approximate real time"),
    "C17": _e1("seq", "model-based stateful property testing (rapid): burst histories over 1-3 roots and all clamped directory limits, directory-tree invariants after every step, reuse probe",
               "Bursts fill directories to the limit; a walk after every step checks placement, per-root availability and the entry bound; a directory that regained room must be reused within 64k writes. Exploration.",
               "DESIGN.md section 4, C17", _MODEL_NOTE),
    "C18": dict(
        engine="unit",
        technique="property-based testing: exhaustive small-domain enumeration + rapid-generated operation sequences against a linear-scan reference",
        level_text=("Every subset of a 12-element version domain with every probe and horizon is enumerated (exhaustive for that sub-domain); beyond it, "
                    "rapid generates long lists and push/pop/collect/probe interleavings through the exported surface of core.Transaction and compares with a linear scan. "
                    "This is exploration: no counterexample within the enumerated domain and the generated cases, not a proof for all lists."),
        design_ref="DESIGN.md section 4, C18",
        level_note="trusts the 15-line linear-scan specification in harness/unit/c18_test.go; version numbers strictly increasing and non-zero as produced by the single atomic counter",
    ),
    "C19": dict(
        engine="unit",
        technique="property-based testing: round trip + differential against an independent reference codec + hand-written golden vectors; native go fuzzing of the decoder in the thorough tier",
        level_text=("Generated records are encoded by fs_db through the real file repository, compared byte-for-byte with an independent encoder written from the documented layout, and decoded back; "
                    "arbitrary byte strings and every length 0..80 are decoded to check never-panic and the 40-byte rule; golden vectors pin the release layout. Exploration of an unbounded input space."),
        design_ref="DESIGN.md section 4, C19",
        level_note="trusts the reference codec and the four golden vectors in harness/unit/c19_test.go (cross-checked against each other at run time)",
    ),
    "C20": dict(
        engine="unit",
        technique="property-based testing: generated configuration states/values against a precedence/validation model; exhaustive enumeration of state combinations in the thorough tier",
        level_text=("For each of the seven settings a state (absent/file/env/both/env-empty/malformed...) and values are generated, the YAML and environment are materialised and config.ParseConfig is compared "
                    "with a three-line precedence model; thorough enumerates every combination of states (one value per state). Storage.Valid is checked over a grid and random values."),
        design_ref="DESIGN.md section 4, C20",
        level_note="trusts the precedence model in harness/unit/c20_test.go; only unambiguously malformed values are generated",
    ),
}
