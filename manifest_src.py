"""Hand-written parts of MANIFEST.json."""

META = dict(
    version=1,
    setup_cmd="./setup.sh",
    hooks=dict(
        guard="verif",
        enable="go build/test -tags verif (the driver ./check copies /repo's working tree, grafts /verif/harness in as internal/verifh and builds with -tags verif)",
        baseline_off_cmd="/verif/tools/baseline.py",
        source_commits=[],
        add_only=True,
    ),
    engines=[
        dict(name="unit", path="harness/unit", serves_properties=["C18", "C19", "C20"],
             kind_free_text="rapid properties and exhaustive small-domain enumerations over pure components, oracle = independent reference implementation"),
    ],
    notes=("All checks are property-based tests / fuzzing: generated cases (rapid v1.3.0) against an explicit oracle, shrunk failures saved as JSON replay files under replays/<id>/. "
           "Exit codes: 0 held, 1 + VIOLATION line, 2 inconclusive (infrastructure)."),
)

_ALL = ["C%02d" % i for i in range(1, 21)]
NOT_APPLICABLE = [dict(property_id=p, reason="check not built yet in this revision of /verif (work in progress; planned in DESIGN.md section 4)") for p in _ALL]

PER_CHECK = {
    "C18": dict(
        engine="unit",
        technique="property-based testing: exhaustive small-domain enumeration + rapid-generated operation sequences against a linear-scan reference",
        level_text=("Every subset of a 12-element version domain with every probe and horizon is enumerated (exhaustive for that sub-domain); beyond it, "
                    "rapid generates long lists and push/pop/collect/probe interleavings through the exported surface of core.Transaction and compares with a linear scan. "
                    "This is exploration: no counterexample within the enumerated domain and the generated cases, not a proof for all lists."),
        design_ref="DESIGN.md section 4, C18",
        level_note="trusts the 15-line linear-scan specification in harness/unit/c18_test.go; version numbers strictly increasing and non-zero as produced by the single atomic counter",
    ),
    "C19": dict(
        engine="unit",
        technique="property-based testing: round trip + differential against an independent reference codec + hand-written golden vectors; native go fuzzing of the decoder in the thorough tier",
        level_text=("Generated records are encoded by fs_db through the real file repository, compared byte-for-byte with an independent encoder written from the documented layout, and decoded back; "
                    "arbitrary byte strings and every length 0..80 are decoded to check never-panic and the 40-byte rule; golden vectors pin the release layout. Exploration of an unbounded input space."),
        design_ref="DESIGN.md section 4, C19",
        level_note="trusts the reference codec and the four golden vectors in harness/unit/c19_test.go (cross-checked against each other at run time)",
    ),
    "C20": dict(
        engine="unit",
        technique="property-based testing: generated configuration states/values against a precedence/validation model; exhaustive enumeration of state combinations in the thorough tier",
        level_text=("For each of the seven settings a state (absent/file/env/both/env-empty/malformed...) and values are generated, the YAML and environment are materialised and config.ParseConfig is compared "
                    "with a three-line precedence model; thorough enumerates every combination of states (one value per state). Storage.Valid is checked over a grid and random values."),
        design_ref="DESIGN.md section 4, C20",
        level_note="trusts the precedence model in harness/unit/c20_test.go; only unambiguously malformed values are generated",
    ),
}
