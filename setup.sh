#!/bin/sh
# Run once after a fresh restore (offline): warm the Go build cache for the harness so that
# the quick checks spend their time on cases, not on compiling Badger/gRPC.
set -e
cd "$(dirname "$0")"
export GOFLAGS=-mod=mod GOPROXY=off GOSUMDB=off GOTOOLCHAIN=local
python3 - <<'PY'
import sys, os
sys.path.insert(0, os.getcwd())
import importlib.machinery, importlib.util
loader = importlib.machinery.SourceFileLoader("check", os.path.join(os.getcwd(), "check"))
spec = importlib.util.spec_from_loader("check", loader)
chk = importlib.util.module_from_spec(spec); loader.exec_module(chk)
from checks_cfg import CHECKS
seen = set()
for pid, cfg in sorted(CHECKS.items()):
    for part in cfg["parts"]:
        key = (part["pkg"], tuple(part.get("tags", [])), bool(part.get("race")), tuple(part.get("rewrite") or ()))
        if key in seen:
            continue
        seen.add(key)
        sc = chk.Scratch()
        try:
            tree = chk.prepare_tree(sc, part)
            chk.build(sc, tree, part)
        finally:
            sc.cleanup()
print("setup: build cache warm for", len(seen), "harness builds")
PY
